"""C11 - transactions are isolated from earlier transactions and from other handler instances.

Differential check, possible only because runs are exactly repeatable. Transaction T (its own
slice of the decision tape: configuration, link faults, cancel point) is executed
  (A) on freshly constructed handlers,
  (B) on handler objects that first ran a tape-chosen history of other transactions
      (completed, cancelled by either side, faulted by a silent link, abandoned), and
  (C) while a sibling pair of handler instances in the same process runs its own transfers,
      interleaved event by event by the same scheduler.
The normalised observable trace of T (PDU fields except the transaction sequence number,
indications, fault callbacks, exceptions, public step / progress, final file) must be equal.
"""
from __future__ import annotations

from pathlib import Path

from cfdpsim.runner import from_world
from cfdpsim.synth import KINDS, Synth
from cfdpsim.tape import Tape
from cfdpsim.world import ACK, UNACK, Cfg, LinkCfg, Violation, World, pdu_hdr, tid_t
from props.monitors import Monitor, build_msgs

from spacepackets.cfdp import ConditionCode
from spacepackets.cfdp.defs import FaultHandlerCode

from cfdppy.request import PutRequest

RULE = (
    "transaction T = one transfer (both modes, closure, all size classes, metadata-only) with 0..3 link faults and an "
    "optional cancel request at a tape-chosen call, executed fresh (A) and then after a history of 1..3 other "
    "transactions on the same handler objects (B: completed / cancelled by sender / cancelled by receiver / link silent "
    "until the limits fault / abandon handler / user reset, own files, own modes, unbounded link faults; a silent peer may be "
    "a second remote entity with its own check-timer interval; scripted scale histories: large-file PDU format at the "
    "receiver, one NAK PDU with 70 segment requests cancelled mid-service at the sender) and / or beside a "
    "sibling pair of handler instances running 1..2 transfers with link faults in the same scheduler (C); traces compared "
    "after normalising time to T's start and masking the sequence number; non-trivial = T itself met a fault or a cancel, "
    "or the history left a transaction unfinished; distinct = interleaving signature of the last variant"
)
ASSUMPTIONS = [
    "history transactions use other file names than T; in-flight PDUs of the history are discarded before T starts (a delayed "
    "PDU of an old transaction reaching T is network behaviour, kept away by the history shell in any case)",
    "handlers that are still busy after the history phase are cancelled and, as a last resort, reset through the public reset()",
    "runs in which T does not come to rest on FRESH handlers within the caps are excused (counted); if only the other "
    "execution fails to come to rest, the traces and final states are compared as far as they go",
]
BUDGET = {"quick": 30, "thorough": 900}

STEPS_DONE = ("IDLE",)


class TraceMon(Monitor):
    """Normalised observable trace of the calls on the T pair (entities a and b)."""

    def __init__(self, names=("a", "b")):
        self.names = names
        self.on = False
        self.t0 = 0
        self.trace = []
        self.calls = 0
        self.idle_polls = 0

    def done(self, w) -> bool:
        """T is over: both handlers of the T pair idle for 8 consecutive polls, nothing addressed to the
        pair in flight (siblings may go on for ever; they are not what is compared)."""
        if self.idle_polls < 8:
            return False
        for (_, _, ev) in w.heap:
            if ev[0] == "arr" and ev[1].name in self.names:
                return False
            if ev[0] == "fn":
                return False
        return True

    def start(self, w) -> None:
        self.on = True
        self.t0 = w.clock.t
        self.trace = []
        self.calls = 0

    @staticmethod
    def _tid(x):
        return None if x is None else (x[0], "S")

    def on_call(self, w, rec) -> None:
        if not self.on or rec.ent not in self.names or rec.hk not in ("src", "dst"):
            return
        self.calls += 1
        if w.a.handlers["src"].state.name == "IDLE" and w.b.handlers["dst"].state.name == "IDLE" and rec.inb is None:
            self.idle_polls += 1
        else:
            self.idle_polls = 0
        if rec.op == "sm" and rec.inb is None and not rec.emitted and not rec.inds and not rec.faults and rec.exc is None \
                and rec.pre.key()[:2] == rec.post.key()[:2] and rec.pre.progress == rec.post.progress and rec.pre.extra == rec.post.extra:
            return
        ems = []
        for e in rec.emitted:
            if e.pdu is None:
                ems.append(("??", len(e.raw)))
                continue
            h = pdu_hdr(e.pdu)
            ems.append((e.info, h[0], h[1], h[2], h[3], h[4], h[5][1], h[6]))
        inds = tuple((i[0], self._tid(i[1])) + tuple(self._tid(x) if (i[0] == "transaction" and isinstance(x, tuple)) else x for x in i[2:]) for i in rec.inds)
        flts = tuple((f[0], self._tid(f[1]), f[2], f[3]) for f in rec.faults)
        self.trace.append(
            (rec.t - self.t0, rec.ent, rec.hk, rec.op, rec.inb_info, tuple(ems), inds, flts,
             None if rec.exc is None else (rec.exc.cls, rec.exc.func), rec.ret, rec.pre.step, rec.post.step, rec.post.progress, rec.post.extra)
        )


class TCancel(Monitor):
    """Cancel request after the n-th call on the T pair."""

    def __init__(self, tm: TraceMon, after: int, side: int):
        self.tm = tm
        self.after = after
        self.side = side
        self.done = None

    def on_call(self, w, rec) -> None:
        if self.tm.on and self.done is None and rec.ent in ("a", "b") and rec.hk in ("src", "dst") and rec.op == "sm" and self.tm.calls == self.after:
            self.done = False
            w.push(w.clock.t, ("fn", self._fn))

    def _fn(self, w) -> None:
        ent, hk = (w.a, "src") if self.side == 0 else (w.b, "dst")
        h = ent.handlers[hk]
        tid = h.transaction_id
        if tid is None or h.num_packets_ready:
            return
        r = w.call(ent, hk, "cancel", arg=tid)
        self.done = bool(r.ret)


def t_force(t):
    return {"shell": "history", "poll_ms": [100, 50, 200][t.choose(3, "poll")], "msgs": 0}


def t_plan(tT, cfg):
    """T's own decisions besides the configuration: link faults and cancel point."""
    K = tT.weighted([3, 4, 3, 1], "T faults")
    fset = [("drop",), ("dup",), ("delay",), ("drop", "dup", "delay")][tT.choose(4, "T fault set")]
    rate = [(1, 4), (1, 2), (1, 8)][tT.choose(3, "T fault rate")]
    nseg = cfg.size // max(cfg.eff_seg, 1)
    c_on = tT.weighted([3, 1, 1], "T cancel")
    c_after = 1 + tT.choose(10 + 2 * min(nseg, 20), "T cancel after")
    fs_shared = tT.choose(4, "T names the user's filestore request list") == 3
    return {"K": K, "fset": fset, "rate": rate, "cancel_side": c_on - 1 if c_on else None, "cancel_after": c_after, "fs_shared": fs_shared}


def start_T(w, tT, plan, tm: TraceMon):
    a, b = w.a, w.b
    w.tape = tT
    a.tape = b.tape = tT
    lk = LinkCfg(plan["fset"] if plan["K"] else (), plan["rate"], plan["K"])
    a.lk = b.lk = lk
    tm.start(w)
    if plan["cancel_side"] is not None:
        w.monitors.append(TCancel(tm, plan["cancel_after"], plan["cancel_side"]))
    reqT = w.put_request_obj(None)
    if plan.get("fs_shared") and not w.cfg.metadata_only:
        # T's request names the user's one list of filestore requests (the same list object every request of this user names)
        reqT.fs_requests = w.user_fs_list
    rec = w.call(a, "src", "put", arg=reqT)
    w.polls_stopped = True
    # one poll loop per handler: drop whatever poll events are pending (siblings with a head start) and re-arm all
    import heapq

    w.heap = [e for e in w.heap if e[2][0] != "poll"]
    heapq.heapify(w.heap)
    w.polled = (("a", "src"), ("b", "dst")) + tuple(p for p in w.polled if p not in (("a", "src"), ("b", "dst")))
    w.start_polls()
    return rec


def final_state(w):
    return (w.dst_bytes(), w.a.handlers["src"].state.name, w.b.handlers["dst"].state.name)


def build(tT, sibling_tape=None):
    cfg = Cfg.draw(tT, t_force(tT))
    if cfg.size // max(cfg.eff_seg, 1) > 30:
        cfg.size_sel = 6
        cfg.finish()
    plan = t_plan(tT, cfg)
    w = World(tT, cfg)
    w.max_events = 30000
    w.max_t = 2_000_000
    tm = TraceMon()
    w.monitors.append(tm)
    from spacepackets.cfdp.tlv import FilestoreActionCode, FileStoreRequestTlv

    w.user_fs_list = [FileStoreRequestTlv(FilestoreActionCode.CREATE_FILE_SNM, "dst/req.bin")]
    return w, cfg, plan, tm


# ---------------------------------------------------------------------------------------------
# variant B: history on the same handler objects

H_KINDS = ("complete", "cancel_src", "cancel_dst", "silence", "abandon", "leave_busy", "junk", "scripted_large")


def _scripted_large_history(w, t, hist_log) -> None:
    """An earlier transaction of a peer that uses the large-file PDU format (legal for any file size) and loses most of its
    File Data PDUs: the receiver goes through a deferred NAK sequence with 16-byte segment requests, then the peer gives up
    and the receiving user resets the handler. Whatever the receiver computed for that PDU format must not reach T."""
    from props.gridpop import Script

    c = w.cfg
    crcb = 2 if c.crc else 0
    if c.metadata_only or c.mode != ACK or c.mpl < c.hdr_len + 1 + 16 + 16 + crcb:
        hist_log.append("scripted_large/skipped")
        return
    b = w.b
    sc = Script(w, t, dst="dst/hl.bin", large=True, seq_off=91)
    hist_log.append(f"scripted_large/{len(sc.tiles)}")
    w.deliver(b, sc.md)
    keep = t.choose(3, "scripted history keeps every nth tile") + 2
    for i, x in enumerate(sc.tiles):
        if i % keep == 0:
            w.deliver(b, x[2])
    w.deliver(b, sc.eof)
    for _ in range(3):
        w.poll(b, "dst")
    w.clock.now_ms += int(c.nak_s * 1000) + 10
    w.poll(b, "dst")
    h = b.handlers["dst"]
    if h.state.name != "IDLE":
        h.reset()
        while h.get_next_packet() is not None:
            pass
        b.note_state("dst", type("S", (), {"busy": False, "tid": None})())
    w.heap.clear()
    w.pending = 0
    w.polls_stopped = True
    w.clock.now_ms += 50


def _scripted_many_gaps_history(w, t, hist_log) -> None:
    """SCALE, sender side (no tape entry of its own; runs with every "scripted_large" history): an earlier acknowledged
    transfer of 140 segments whose peer asks for every second segment in ONE NAK PDU (70 segment requests - more than any
    per-call batch an implementation may serve a NAK in), and whose user cancels right after the call that took the NAK.
    Whatever the sender kept for serving that NAK must not reach T's first NAK."""
    from spacepackets.cfdp.pdu import NakPdu

    c = w.cfg
    if c.metadata_only or c.mode != ACK:
        return
    a = w.a
    seg = max(c.eff_seg, 1)
    n = 140
    data = bytes((5 * j + 3) & 0xFF for j in range(n * seg))
    w.vfs_a.h_put("src/hm.bin", data)
    w.link.partition["a"] = True
    h = a.handlers["src"]
    rec = w.call(a, "src", "put", arg=PutRequest(w.b.eid, Path("src/hm.bin"), Path("dst/hm.bin"), ACK, False))
    if rec.ret is True:
        for _ in range(n + 8):
            w.poll(a, "src")
            if h.step.name == "WAITING_FOR_EOF_ACK":
                break
        tid = h.transaction_id
        if tid is not None and h.step.name == "WAITING_FOR_EOF_ACK" and not h.num_packets_ready:
            conf, _, _ = Synth(w, perturb=0).conf(t, "NAK", tid.seq_num.value, pert=False)
            reqs = [(2 * k * seg, (2 * k + 1) * seg) for k in range(70)]
            w.deliver(a, bytes(NakPdu(conf, 0, n * seg, reqs).pack()))
            hist_log.append("many_gaps/70")
            if h.transaction_id is not None and not h.num_packets_ready:
                w.call(a, "src", "cancel", arg=h.transaction_id)
            for _ in range(4):
                w.poll(a, "src")
        if h.state.name != "IDLE":
            h.reset()
            while h.get_next_packet() is not None:
                pass
            a.note_state("src", type("S", (), {"busy": False, "tid": None})())
    w.link.partition["a"] = False
    w.heap.clear()
    w.pending = 0
    w.polls_stopped = True
    w.clock.now_ms += 50


def run_history(w, t, hist_log):
    a, b = w.a, w.b
    w.tape = t
    a.tape = b.tape = t
    n = 1 + t.weighted([4, 3, 1], "n history")
    unfinished = 0
    restore_src = []
    for i in range(n):
        kind = H_KINDS[t.weighted([3, 2, 2, 2, 2, 2, 2, 1], "history kind")]
        if kind == "scripted_large":
            _scripted_large_history(w, t, hist_log)
            _scripted_many_gaps_history(w, t, hist_log)
            continue
        junk_abandon = kind == "junk" and t.choose(2, "junk with abandon handlers") == 1
        mode = [ACK, UNACK][t.choose(2, "history mode")]
        closure = bool(t.choose(2, "history closure"))
        # (last entry: scale - a few hundred segments, so that a lossy history transaction has NAK PDUs with many requests)
        size = [3 * max(w.cfg.eff_seg, 1) + 1, 0, 1, 7 * max(w.cfg.eff_seg, 1), max(w.cfg.eff_seg, 1), 260 * min(max(w.cfg.eff_seg, 1), 16)][
            t.choose(6, "history size")]
        size = min(size, 4200)
        data = bytes((7 * j + 13 * i + 1) & 0xFF for j in range(size))
        src_name = f"src/h{i}.bin"
        # one history transaction in five sends T's own source path while it holds OTHER content of the same size (the
        # producing application rewrites a fixed-size file between transfers, behind the filestore object's back)
        same_path = not w.cfg.metadata_only and t.choose(5, "history sends T's source path") == 4
        if same_path:
            data = bytes((x ^ 0xA5) for x in w.src_bytes)
            size = len(data)
            src_name = w.src_path
            restore_src.append(True)
        w.vfs_a.h_put(src_name, data)
        hist_log.append(f"{kind}/{mode.name[:3]}/{size}")
        lk = LinkCfg(("drop", "dup", "delay"), [(0, 1), (1, 6), (1, 3)][t.choose(3, "history fault rate")], None)
        a.lk = b.lk = lk
        if kind == "abandon" or junk_abandon:
            for ent in (a, b):
                for cc in (ConditionCode.POSITIVE_ACK_LIMIT_REACHED, ConditionCode.NAK_LIMIT_REACHED, ConditionCode.CHECK_LIMIT_REACHED,
                           ConditionCode.FILE_CHECKSUM_FAILURE, ConditionCode.CANCEL_REQUEST_RECEIVED, ConditionCode.FILE_SIZE_ERROR,
                           ConditionCode.FILESTORE_REJECTION):
                    ent.fh.set_handler(cc, FaultHandlerCode.ABANDON_TRANSACTION)
        # earlier transactions carry message lists (originating id, proxy messages) that T does not
        hm, _ = build_msgs(t.weighted([3, 1, 2, 1, 1, 1, 1], "history msgs"))
        # (m2) Metadata options: fault handler overrides a receiver might (wrongly) take into its entity-wide table
        ovr = None
        osel = t.choose(5, "history fault handler override")
        if osel:
            from spacepackets.cfdp.tlv import FaultHandlerOverrideTlv

            ovr = [FaultHandlerOverrideTlv(
                [ConditionCode.FILE_CHECKSUM_FAILURE, ConditionCode.POSITIVE_ACK_LIMIT_REACHED, ConditionCode.NAK_LIMIT_REACHED,
                 ConditionCode.CHECK_LIMIT_REACHED][osel - 1],
                [FaultHandlerCode.NOTICE_OF_CANCELLATION, FaultHandlerCode.ABANDON_TRANSACTION, FaultHandlerCode.IGNORE_ERROR,
                 FaultHandlerCode.ABANDON_TRANSACTION][osel - 1])]
        dest_eid = b.eid
        # a silent peer that is ANOTHER remote entity (id 3, nobody there): the handler then has a past with a remote
        # whose configuration - and whose check-timer interval, which the user's provider chooses per remote entity -
        # is not T's (no tape entry of its own: every unacknowledged "silence" history with closure goes there)
        ghost = kind == "silence" and mode == UNACK and closure
        if ghost:
            import dataclasses

            from spacepackets.util import UnsignedByteField

            g_eid = UnsignedByteField(3, b.eid.byte_len)
            if a.table.get_cfg(g_eid) is None:
                a.table.add_config(dataclasses.replace(a.rcfg, entity_id=g_eid))
            w.check_s_by_remote = {3: 0.001}
            w.link.partition["a"] = True
            dest_eid = g_eid
            hist_log[-1] += "/ghost"
        req = PutRequest(dest_eid, Path(src_name), Path(f"dst/h{i}.bin"), mode, closure, msgs_to_user=hm, fault_handler_overrides=ovr)
        if t.choose(2, "history names the user's filestore request list") == 1 and hasattr(w, "user_fs_list"):
            req.fs_requests = w.user_fs_list
        rec = w.call(a, "src", "put", arg=req)
        if rec.ret is not True:
            hist_log.append("put-refused")
            break
        w.polls_stopped = True
        w.start_polls()
        nseg = size // max(w.cfg.eff_seg, 1)
        at = 2 + t.choose(8 + 2 * min(nseg, 20), "history event after")
        # junk may instead be timed by state: right after the receiver entered a step in which it waits for data
        # although the EOF is in (late data, data beyond the EOF size and retransmissions all meet there)
        by_state = kind == "junk" and t.choose(2, "junk when waiting for data") == 1
        if by_state:
            lk.rate = (1, 3)
            lk.enabled = {"drop"}
        # a sender-side cancel may be timed to hit the moment between serving a NAK and the next call
        cancel_retx = kind == "cancel_src" and mode == ACK and t.choose(2, "cancel while retransmitting") == 1
        if cancel_retx:
            lk.rate = (1, 3)
            lk.enabled = {"drop"}
        calls0 = w.calls_n
        acted = False
        start_t = w.clock.t
        limit_t = start_t + int((w.cfg.ack_lim * 2 + w.cfg.nak_lim + w.cfg.check_lim + 6) * max(w.cfg.ack_s, w.cfg.nak_s, w.cfg.check_s_recv, w.cfg.check_s_send) * 1000) + 8000
        while True:
            trigger = w.calls_n - calls0 >= at
            if by_state:
                trigger = b.handlers["dst"].step.name in ("WAITING_FOR_MISSING_DATA", "RECV_FILE_DATA_WITH_CHECK_LIMIT_HANDLING") \
                    and not b.handlers["dst"].num_packets_ready
            if cancel_retx:
                trigger = a.handlers["src"].step.name == "RETRANSMITTING" and not a.handlers["src"].num_packets_ready
            if not acted and trigger:
                acted = True
                if kind in ("cancel_src", "cancel_dst"):
                    ent, hk = (a, "src") if kind == "cancel_src" else (b, "dst")
                    h = ent.handlers[hk]
                    if h.transaction_id is not None and not h.num_packets_ready:
                        w.call(ent, hk, "cancel", arg=h.transaction_id)
                elif kind in ("silence", "abandon"):
                    which = t.choose(3, "silence direction")
                    if which in (0, 2):
                        w.link.partition["a"] = True
                    if which in (1, 2):
                        w.link.partition["b"] = True
                elif kind == "leave_busy":
                    break
                elif kind == "junk":
                    # a misbehaving peer: a few arbitrary well-formed PDUs for the running transaction at either entity
                    # (header fields are those of the running transaction: a PDU carrying a FUTURE sequence number would
                    # put T's own id into the user's transaction history, which is not the handlers' doing)
                    syn = Synth(w, perturb=0)
                    syn.data = data
                    syn.size = len(data)
                    syn.src_path, syn.dst_req = f"src/h{i}.bin", f"dst/h{i}.bin"
                    if by_state:
                        from spacepackets.cfdp.pdu import FileDataPdu
                        from spacepackets.cfdp.pdu.file_data import FileDataParams

                        tidh = b.handlers["dst"].transaction_id
                        if tidh is not None:
                            conf, _, _ = syn.conf(t, "FD", tidh.seq_num.value, pert=False)
                            sgm = max(w.cfg.eff_seg, 1)
                            off = len(data) + [sgm, 1, 0][t.choose(3, "beyond eof gap")]
                            w.deliver(b, bytes(FileDataPdu(conf, FileDataParams(b"\x5a" * sgm, off, None)).pack()))
                    for _ in range(1 + t.choose(4, "n junk")):
                        to_b = t.choose(3, "junk at") != 2
                        jk = KINDS[t.weighted([2, 5, 3, 1, 2, 2, 2, 1, 1] if to_b else [1, 1, 1, 3, 1, 5, 4, 1, 1], "junk kind")]
                        tidh = a.handlers["src"].transaction_id
                        seq = tidh.seq_num.value if tidh is not None else (a.seqp.issued[-1] if a.seqp.issued else 0)
                        try:
                            raw = bytes(syn.gen(t, jk, seq)[0].pack())
                        except Exception:  # noqa: BLE001
                            continue
                        w.deliver(b if to_b else a, raw)
            if not w.step():
                break
            if w.pending == 0 and a.handlers["src"].state.name == "IDLE" and b.handlers["dst"].state.name == "IDLE":
                break
            if w.clock.t > limit_t:
                break
        w.link.partition["a"] = False
        w.link.partition["b"] = False
        if kind == "abandon" or junk_abandon:
            for ent in (a, b):
                ent.fh.__init__(w, ent)  # back to the default table (configuration, not state)
        # whatever is still busy: cancel, then reset (the user gives up on the old transaction)
        for ent, hk in ((a, "src"), (b, "dst")):
            h = ent.handlers[hk]
            if h.state.name != "IDLE":
                unfinished += 1
                # drop what is in flight, then cancel
                if h.transaction_id is not None and not h.num_packets_ready and t.choose(2, "cancel before reset") == 0:
                    w.call(ent, hk, "cancel", arg=h.transaction_id)
                    for _ in range(40):
                        if h.state.name == "IDLE" or not w.step():
                            break
                if h.state.name != "IDLE":
                    hist_log.append(f"reset:{ent.name}.{hk}@{h.step.name}")
                    h.reset()
                    while h.get_next_packet() is not None:
                        pass
                    ent.note_state(hk, type("S", (), {"busy": False, "tid": None})())
        # discard everything in flight and every pending poll
        w.heap.clear()
        w.pending = 0
        w.polls_stopped = True
    if restore_src:
        w.vfs_a.h_put(w.src_path, w.src_bytes)  # written by "another program", not through the filestore interface
    return unfinished


# ---------------------------------------------------------------------------------------------
# variant C: sibling handler instances


def start_siblings(w, t, sib_log):
    c, d = w.add_pair("c", "d", 3, 4, tape=t)
    lk = LinkCfg(("drop", "dup", "delay"), [(0, 1), (1, 5), (1, 3)][t.choose(3, "sibling fault rate")], None)
    c.lk = d.lk = lk
    w.polled = w.polled + (("c", "src"), ("d", "dst"))
    n = 1 + t.choose(2, "sibling transfers")
    state = {"i": 0, "tries": 0}

    def put(w2):
        i = state["i"]
        if i >= n:
            return
        if c.handlers["src"].state.name != "IDLE":
            state["tries"] += 1
            if state["tries"] < 25:
                w2.push(w2.clock.t + 300, ("fn", put))
            return
        state["i"] += 1
        mode = [ACK, UNACK][t.choose(2, "sibling mode")]
        closure = bool(t.choose(2, "sibling closure"))
        size = [5 * max(w.cfg.eff_seg, 1) + 2, 0, 2 * max(w.cfg.eff_seg, 1), 9 * max(w.cfg.eff_seg, 1)][t.choose(4, "sibling size")]
        size = min(size, 4000)
        w.vfs_a.h_put(f"src/s{i}.bin", bytes((3 * j + 5 * i + 2) & 0xFF for j in range(size)))
        sib_log.append(f"{mode.name[:3]}/{size}")
        req = PutRequest(d.eid, Path(f"src/s{i}.bin"), Path(f"dst/s{i}.bin"), mode, closure)
        w2.call(c, "src", "put", arg=req)
        w2.push(w2.clock.t + [200, 900, 2500][t.choose(3, "sibling next")], ("fn", put))

    w.push([0, 0, 40, 400][t.choose(4, "sibling start")], ("fn", put))


def start_same_entity_siblings(w, t, sib_log):
    """A second SourceHandler at entity a and a second DestHandler at entity b: they share the MIB objects
    (local and remote entity configuration, fault handler table), the user, the filestore and the sequence number
    provider with T's handlers, and run their own transfers between the same two entities."""
    from spacepackets.util import UnsignedByteField

    from cfdppy.handler.dest import DestHandler
    from cfdppy.handler.source import SourceHandler
    from cfdpsim.world import tid_of

    a, b = w.a, w.b
    a.handlers["src2"] = SourceHandler(a.lcfg, a.user, a.table, a.timers, a.seqp)
    b.handlers["dst2"] = DestHandler(b.lcfg, b.user, b.table, b.timers)
    lk = LinkCfg(("drop", "dup", "delay"), [(0, 1), (1, 5), (1, 3)][t.choose(3, "sibling fault rate")], None)
    for ent, hk in ((a, "src2"), (b, "dst2")):
        ent.lk_by[hk] = lk
        ent.tape_by[hk] = t
    w.polled = w.polled + (("a", "src2"), ("b", "dst2"))

    def route(ent, pdu, hk):
        tid = tid_of(pdu)
        h2 = ent.handlers.get(hk + "2")
        if h2 is not None:
            if tid_t(h2.transaction_id) == tid and h2.state.name != "IDLE":
                return hk + "2"
            if tid in ent.closed[hk + "2"] or tid in state["tids"]:
                return hk + "2"
        return hk

    w.route_hook = route
    c = w.cfg
    n = 1 + t.choose(2, "sibling transfers")
    state = {"i": 0, "tries": 0, "tids": set()}

    def put(w2):
        i = state["i"]
        if i >= n:
            return
        h = a.handlers["src2"]
        if h.state.name != "IDLE":
            state["tries"] += 1
            if state["tries"] < 25:
                w2.push(w2.clock.t + 300, ("fn", put))
            return
        state["i"] += 1
        mode = [ACK, UNACK][t.choose(2, "sibling mode")]
        closure = bool(t.choose(2, "sibling closure"))
        size = [5 * max(c.eff_seg, 1) + 2, 0, 2 * max(c.eff_seg, 1), 9 * max(c.eff_seg, 1)][t.choose(4, "sibling size")]
        size = min(size, 4000)
        w.vfs_a.h_put(f"src/s{i}.bin", bytes((3 * j + 5 * i + 2) & 0xFF for j in range(size)))
        # the sibling names the destination with another id width when the packet length allows it
        wsel = [None, 1, 2, 4, 8][t.choose(5, "sibling dest id width")]
        dest = b.eid
        if wsel is not None and 4 + 2 * max(c.idw_a, wsel) + c.seqw + 1 + 16 + (2 if c.crc else 0) + 2 <= c.mpl:
            dest = UnsignedByteField(2, wsel)
        sib_log.append(f"same-entity/{mode.name[:3]}/{size}/idw{dest.byte_len}")
        req = PutRequest(dest, Path(f"src/s{i}.bin"), Path(f"dst/s{i}.bin"), mode, closure)
        r = w2.call(a, "src2", "put", arg=req)
        w2.push(w2.clock.t + [200, 900, 2500][t.choose(3, "sibling next")], ("fn", put))

    class TidNote(Monitor):
        def on_call(self, w2, rec):
            if rec.ent == "a" and rec.hk == "src2" and rec.post.tid is not None:
                state["tids"].add(rec.post.tid)

    w.monitors.append(TidNote())
    # the sibling starts first, so that T begins while it is mid-transaction (or just before / after it)
    w.push([0, 0, 40, 400][t.choose(4, "sibling start")], ("fn", put))
    if t.choose(2, "sibling head start") == 1:
        put(w)
        w.polls_stopped = True
        w.start_polls()
        for _ in range(t.choose(25, "head start events")):
            if not w.step():
                break


# ---------------------------------------------------------------------------------------------


def run_one(t):
    variant = t.weighted([3, 3, 2, 3], "variant")  # B / C / B+C / D (siblings on the same entities)
    # ---- A: fresh handlers; T's decisions are recorded on the main tape
    p0 = len(t.rec)
    w, cfg, plan, tm = build(t)
    try:
        put = start_T(w, t, plan, tm)
        reason_a = w.run(until=lambda w_: tm.done(w_))
        trace_a = list(tm.trace)
        fin_a = final_state(w)
        sliceT = t.rec[p0:]
        res = from_world(w, "isolation", False)
        t_faulty = sum(w.link.fired.values()) > 0 or plan["cancel_side"] is not None
        log_a = list(w.log)
    finally:
        w.close()
    p1 = len(t.rec)
    # ---- second execution: same T slice, history and / or siblings from the main tape
    tT = Tape(values=list(sliceT))
    w2, cfg2, plan2, tm2 = build(tT)
    try:
        hist_log, sib_log = [], []
        unfinished = 0
        if variant in (0, 2):
            unfinished = run_history(w2, t, hist_log)
        if variant in (1, 2):
            start_siblings(w2, t, sib_log)
        if variant == 3:
            start_same_entity_siblings(w2, t, sib_log)
        start_T(w2, tT, plan2, tm2)
        reason_b = w2.run(until=lambda w_: tm2.done(w_))
        trace_b = list(tm2.trace)
        fin_b = final_state(w2)
        label = ("hist=" + ",".join(hist_log) if hist_log else "") + (" sib=" + ",".join(sib_log) if sib_log else "")
        res.pop = ["history", "siblings", "history+siblings", "same_entity_siblings"][variant]
        res.probes[f"C11.variant_{res.pop}"] = 1
        for hk in hist_log:
            res.probes["C11.hist_" + hk.split("/")[0].split(":")[0]] = res.probes.get("C11.hist_" + hk.split("/")[0].split(":")[0], 0) + 1
        res.nontrivial = t_faulty or unfinished > 0
        res.sig = w2.signature()
        res.events += w2.nev
        res.calls += w2.calls_n
        res.sim_ms += w2.clock.t
        for k, v in w2.link.fired.items():
            if v:
                res.faults[k] = res.faults.get(k, 0) + v
        ok_a = reason_a in ("quiet", "until", "empty")
        ok_b = reason_b in ("quiet", "until", "empty")
        if not ok_a:
            # T does not come to rest even on fresh handlers within the caps: nothing to compare against
            res.excused["fresh_run_capped"] = 1
            res.log = log_a
            return res
        if not ok_b:
            # fresh T came to rest, the other execution did not: compare what there is (the fresh trace must
            # be a prefix) - the final states will differ if T hangs
            res.probes["C11.second_run_capped"] = 1
            trace_b = trace_b[: len(trace_a)] if trace_b[: len(trace_a)] == trace_a else trace_b
        if len(tT.rec) < len(sliceT) and ok_b:
            # fewer decisions drawn: T took another course; the traces will say where
            res.probes["C11.fewer_decisions"] = 1
        viol = None
        if trace_a != trace_b:
            n = next((i for i, (x, y) in enumerate(zip(trace_a, trace_b)) if x != y), min(len(trace_a), len(trace_b)))
            x = trace_a[n] if n < len(trace_a) else None
            y = trace_b[n] if n < len(trace_b) else None
            ref = y or x
            what = "trace"
            if x is not None and y is not None:
                names = ("t", "ent", "hk", "op", "inbound", "emitted", "indications", "faults", "exception", "ret", "pre_step", "post_step", "progress", "counters")
                what = ",".join(nm for nm, u, v in zip(names, x, y) if u != v)
            viol = Violation(
                f"C11.{['history', 'siblings', 'history_siblings', 'same_entity_siblings'][variant]}_changes_behaviour",
                f"{ref[1]}.{ref[2]} op={ref[3]} in={ref[4][0] if ref[4] else None} differs in {what} mode={cfg.mode.name[:5]}",
                f"fresh: {x} | other: {y} | {label}",
            )
        elif fin_a != fin_b:
            viol = Violation(
                f"C11.{['history', 'siblings', 'history_siblings', 'same_entity_siblings'][variant]}_changes_file",
                f"final state differs mode={cfg.mode.name[:5]}",
                f"fresh={None if fin_a[0] is None else len(fin_a[0])},{fin_a[1:]} other={None if fin_b[0] is None else len(fin_b[0])},{fin_b[1:]} | {label}",
            )
        res.log = log_a + [f"---- second execution: {label} ----"] + w2.log
        if viol is not None:
            res.violations.append(viol)
            res.log.append(f"  !! VIOLATION {viol.clause} | {viol.locus} | {viol.detail}")
        import hashlib

        res.digest = hashlib.sha256("\n".join(res.log).encode()).hexdigest()[:16]
        return res
    finally:
        w2.close()
