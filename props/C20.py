"""C20 - PDU routing agrees with what each handler accepts."""
from __future__ import annotations

from cfdpsim.runner import from_world
from props import insitu
from props.monitors import RoutingMonitor
from props.synthpop import synthetic

RULE = (
    "every PDU of every run is routed by the shell with get_packet_destination and compared with the 4.5.3 table; "
    "synthetic population supplies all 9 PDU kinds (Keep-Alive, Prompt, both ACK kinds) with perturbed direction flag, "
    "mode, CRC flag, id width; fault kind 'misroute' hands a PDU to the other handler of the addressed entity (must be "
    "refused by a library exception, state unchanged); history shell exercises acknowledge_inactive_eof_pdu with "
    "TERMINATED / UNDEFINED / UNRECOGNIZED and the bad-status fault ACTIVE; the table (kind x acked directive x direction "
    "x mode x crc x id width) is covered by sampling: cells hit are counted as probes rc:*; non-trivial = a synthetic "
    "PDU was both accepted and rejected in the run (or population rule)"
)
ASSUMPTIONS = [
    "'refused as belonging to the other side' = InvalidPduForSourceHandler / InvalidPduForDestHandler",
    "a misrouted PDU must be refused by some library exception (typically the direction check)",
]
BUDGET = {"quick": 25, "thorough": 600}


def attach(ctx):
    return [RoutingMonitor(ctx.w)]


def run_one(t):
    pop = t.weighted([6, 2, 1], "population")
    if pop == 0:
        ctx = synthetic(t, attach, force={"msgs": 0})
        w = ctx.w
        try:
            return from_world(w, ctx.pop, ctx.nontrivial)
        finally:
            w.close()
    return insitu.run(t, {["bounded_faults", "chaos"][pop - 1]: 1}, attach, force={"shell": "history"})


# ---------------------------------------------------------------------------------------------
# sweep: the whole routing table (the quantifier's finite space), against handlers in three states

from cfdpsim.synth import KINDS, TO_RECEIVER, Synth  # noqa: E402
from cfdpsim.tape import Tape  # noqa: E402
from cfdpsim.world import ACK, UNACK, Cfg, World  # noqa: E402
from props.pops import Ctx, _start  # noqa: E402
from props.synthpop import live_seq  # noqa: E402

from spacepackets.cfdp import Direction  # noqa: E402

SWEEP_RULE = (
    "every cell of PDU kind (Metadata, File Data, EOF, ACK of EOF, ACK of Finished, NAK, Finished, Keep-Alive, Prompt) x "
    "direction flag (proper / flipped) x transmission mode x CRC flag x entity id width (1, 2, 4, 8) x handler state (no "
    "transaction, mid-transfer, waiting for the EOF acknowledgement, waiting for Finished) x receiving entity (the one the "
    "PDU kind is meant for / the other one), each delivered once as routed by get_packet_destination and once, in a second "
    "identical world, to the other handler of that entity (misroute fault); plus every cell of acknowledge_inactive_eof_pdu: "
    "condition code (all defined) x transaction status (4) x mode x CRC flag x id width"
)


def SWEEP(tier):
    cells = []
    for kind in KINDS:
        for flip in (0, 1):
            for mode in (0, 1):
                for crc in (0, 1):
                    for idw in (1, 2, 4, 8):
                        for state in ("none", "mid", "late", "waitfin"):
                            for at in ("natural", "other"):
                                for mis in (0, 1):
                                    cells.append({"kind": kind, "flip": flip, "mode": mode, "crc": crc, "idw": idw, "state": state,
                                                  "at": at, "misroute": mis})
    # the helper that acknowledges an EOF PDU of an inactive transaction: every condition code x status x mode x CRC x id width
    for cond in range(16):
        for status in range(4):
            for mode in (0, 1):
                for crc in (0, 1):
                    for idw in (1, 2, 4, 8):
                        cells.append({"kind": "HELPER", "cond": cond, "status": status, "mode": mode, "crc": crc, "idw": idw})
    return cells


def _helper_cell(p):
    """acknowledge_inactive_eof_pdu on one EOF PDU: ACK (EOF) towards the sender, the EOF's condition code, the given
    status; the ACTIVE status is refused; the ACK survives the codec."""
    import hashlib

    from cfdpsim.runner import RunResult
    from cfdpsim.world import Violation, hash_sig, parse_pdu, pdu_info, tid_of
    from cfdppy.handler.dest import acknowledge_inactive_eof_pdu
    from spacepackets.cfdp import ConditionCode, CrcFlag, PduConfig, TransmissionMode
    from spacepackets.cfdp.pdu import EofPdu, TransactionStatus
    from spacepackets.cfdp.tlv import EntityIdTlv
    from spacepackets.util import UnsignedByteField

    r = RunResult()
    log = [f"helper cell {p}"]
    viol = []
    try:
        cond = ConditionCode(p["cond"])
    except ValueError:
        cond = None
    if cond is not None:
        conf = PduConfig(UnsignedByteField(1, p["idw"]), UnsignedByteField(2, p["idw"]), UnsignedByteField(7, 2),
                         [TransmissionMode.ACKNOWLEDGED, TransmissionMode.UNACKNOWLEDGED][p["mode"]],
                         crc_flag=CrcFlag.WITH_CRC if p["crc"] else CrcFlag.NO_CRC)
        floc = None if cond == ConditionCode.NO_ERROR else EntityIdTlv(bytes(UnsignedByteField(1, p["idw"]).as_bytes))
        eof = EofPdu(conf, b"\x01\x02\x03\x04", 12, floc, cond)
        st = TransactionStatus(p["status"])
        want_tid = tid_of(eof)
        try:
            ack = acknowledge_inactive_eof_pdu(eof, st)
        except ValueError:
            ack = None
            if st != TransactionStatus.ACTIVE:
                viol.append(Violation("C20.inactive_ack", f"status={int(st)} cond={int(cond)} refused", ""))
        except Exception as e:  # noqa: BLE001
            ack = None
            viol.append(Violation("C20.inactive_ack", f"status={int(st)} cond={int(cond)} raises {type(e).__name__}", str(e)[:80]))
        if ack is not None:
            if st == TransactionStatus.ACTIVE:
                viol.append(Violation("C20.inactive_ack_active_refused", "no exception", f"cond={int(cond)}"))
            else:
                raw = bytes(ack.pack())
                again = parse_pdu(raw)
                for obj, tag in ((ack, "object"), (again, "bytes")):
                    if obj is None:
                        viol.append(Violation("C20.inactive_ack", f"ACK does not survive the codec cond={int(cond)}", ""))
                        continue
                    inf = pdu_info(obj)
                    if inf[1] != 4 or inf[2] != int(cond) or inf[3] != int(st) or int(obj.pdu_header.direction) != 1 or tid_of(obj) != want_tid:
                        viol.append(Violation("C20.inactive_ack", f"{tag}: {inf} dir={int(obj.pdu_header.direction)} want cond={int(cond)} status={int(st)}", ""))
        r.nontrivial = True
    r.violations = viol
    for v in viol:
        log.append(f"  !! VIOLATION {v.clause} | {v.locus} | {v.detail}")
    r.sig = hash_sig(("helper", p["cond"], p["status"], p["mode"], p["crc"], p["idw"]))
    r.nstates = 1
    r.probes = {"C20.helper_cell": 1}
    r.events = 1
    r.calls = 1
    r.log = log
    r.digest = hashlib.sha256("\n".join(log).encode()).hexdigest()[:16]
    r.cfg = {"sweep": p}
    r.pop = "helper_sweep"
    return r


def run_sweep(p):
    if p["kind"] == "HELPER":
        return _helper_cell(p)
    f = {"mode": [ACK, UNACK][p["mode"]], "crc": bool(p["crc"]), "idw_a": p["idw"], "idw_b": p["idw"], "shell": "plain", "size_sel": 6,
         "vfs": "mem", "msgs": 0, "closure": True, "metadata_only": False, "ack_s": 1000.0, "nak_s": 1000.0, "check_s_recv": 1000.0,
         "check_s_send": 1000.0}
    t = Tape(values=[])
    cfg = Cfg.draw(t, f)
    w = World(t, cfg)
    ctx = Ctx(w, "table_sweep")
    try:
        mon = RoutingMonitor(w)
        w.monitors.append(mon)
        if p["state"] != "none":
            _start(ctx, None)
            if p["state"] == "mid":
                for _ in range(9):
                    w.step()
            else:
                stop = ("WAITING_FOR_EOF_ACK", "WAITING_FOR_FINISHED", "NOTICE_OF_COMPLETION", "IDLE") if p["state"] == "late" else (
                    "WAITING_FOR_FINISHED", "NOTICE_OF_COMPLETION", "IDLE")
                for _ in range(400):
                    if not w.step():
                        break
                    if w.a.handlers["src"].step.name in stop:
                        break
        syn = Synth(w, perturb=0)
        pdu, _ = syn.gen(t, p["kind"], live_seq(w), pert=False)
        if p["flip"]:
            h = pdu.pdu_header
            h.direction = Direction.TOWARDS_SENDER if h.direction == Direction.TOWARDS_RECEIVER else Direction.TOWARDS_RECEIVER
        raw = bytes(pdu.pack())
        ent = w.b if p["kind"] in TO_RECEIVER else w.a
        if p.get("at") == "other":
            ent = w.a if ent is w.b else w.b  # the same PDU arriving at the other entity (where the flipped flag "fits")
        rec = w.deliver(ent, raw, misroute=bool(p["misroute"]))
        r = from_world(w, ctx.pop, rec is not None)
        r.cfg = dict(r.cfg, sweep=p)
        return r
    finally:
        w.close()
