"""C20 - PDU routing agrees with what each handler accepts."""
from __future__ import annotations

from cfdpsim.runner import from_world
from props import insitu
from props.monitors import RoutingMonitor
from props.synthpop import synthetic

RULE = (
    "every PDU of every run is routed by the shell with get_packet_destination and compared with the 4.5.3 table; "
    "synthetic population supplies all 9 PDU kinds (Keep-Alive, Prompt, both ACK kinds) with perturbed direction flag, "
    "mode, CRC flag, id width; fault kind 'misroute' hands a PDU to the other handler of the addressed entity (must be "
    "refused by a library exception, state unchanged); history shell exercises acknowledge_inactive_eof_pdu with "
    "TERMINATED / UNDEFINED / UNRECOGNIZED and the bad-status fault ACTIVE; the table (kind x acked directive x direction "
    "x mode x crc x id width) is covered by sampling: cells hit are counted as probes rc:*; non-trivial = a synthetic "
    "PDU was both accepted and rejected in the run (or population rule)"
)
ASSUMPTIONS = [
    "'refused as belonging to the other side' = InvalidPduForSourceHandler / InvalidPduForDestHandler",
    "a misrouted PDU must be refused by some library exception (typically the direction check)",
]
BUDGET = {"quick": 25, "thorough": 600}


def attach(ctx):
    return [RoutingMonitor(ctx.w)]


def run_one(t):
    pop = t.weighted([6, 2, 1], "population")
    if pop == 0:
        ctx = synthetic(t, attach, force={"msgs": 0})
        w = ctx.w
        try:
            return from_world(w, ctx.pop, ctx.nontrivial)
        finally:
            w.close()
    return insitu.run(t, {["bounded_faults", "chaos"][pop - 1]: 1}, attach, force={"shell": "history"})


# ---------------------------------------------------------------------------------------------
# sweep: the whole routing table (the quantifier's finite space), against handlers in three states

from cfdpsim.synth import KINDS, TO_RECEIVER, Synth  # noqa: E402
from cfdpsim.tape import Tape  # noqa: E402
from cfdpsim.world import ACK, UNACK, Cfg, World  # noqa: E402
from props.pops import Ctx, _start  # noqa: E402
from props.synthpop import live_seq  # noqa: E402

from spacepackets.cfdp import Direction  # noqa: E402

SWEEP_RULE = (
    "every cell of PDU kind (Metadata, File Data, EOF, ACK of EOF, ACK of Finished, NAK, Finished, Keep-Alive, Prompt) x "
    "direction flag (proper / flipped) x transmission mode x CRC flag x entity id width (1, 2, 4, 8) x handler state (no "
    "transaction, mid-transfer, waiting for the EOF acknowledgement, waiting for Finished) x receiving entity (the one the "
    "PDU kind is meant for / the other one), each delivered once as routed by get_packet_destination and once, in a second "
    "identical world, to the other handler of that entity (misroute fault)"
)


def SWEEP(tier):
    cells = []
    for kind in KINDS:
        for flip in (0, 1):
            for mode in (0, 1):
                for crc in (0, 1):
                    for idw in (1, 2, 4, 8):
                        for state in ("none", "mid", "late", "waitfin"):
                            for at in ("natural", "other"):
                                for mis in (0, 1):
                                    cells.append({"kind": kind, "flip": flip, "mode": mode, "crc": crc, "idw": idw, "state": state,
                                                  "at": at, "misroute": mis})
    return cells


def run_sweep(p):
    f = {"mode": [ACK, UNACK][p["mode"]], "crc": bool(p["crc"]), "idw_a": p["idw"], "idw_b": p["idw"], "shell": "plain", "size_sel": 6,
         "vfs": "mem", "msgs": 0, "closure": True, "metadata_only": False, "ack_s": 1000.0, "nak_s": 1000.0, "check_s_recv": 1000.0,
         "check_s_send": 1000.0}
    t = Tape(values=[])
    cfg = Cfg.draw(t, f)
    w = World(t, cfg)
    ctx = Ctx(w, "table_sweep")
    try:
        mon = RoutingMonitor(w)
        w.monitors.append(mon)
        if p["state"] != "none":
            _start(ctx, None)
            if p["state"] == "mid":
                for _ in range(9):
                    w.step()
            else:
                stop = ("WAITING_FOR_EOF_ACK", "WAITING_FOR_FINISHED", "NOTICE_OF_COMPLETION", "IDLE") if p["state"] == "late" else (
                    "WAITING_FOR_FINISHED", "NOTICE_OF_COMPLETION", "IDLE")
                for _ in range(400):
                    if not w.step():
                        break
                    if w.a.handlers["src"].step.name in stop:
                        break
        syn = Synth(w, perturb=0)
        pdu, _ = syn.gen(t, p["kind"], live_seq(w), pert=False)
        if p["flip"]:
            h = pdu.pdu_header
            h.direction = Direction.TOWARDS_SENDER if h.direction == Direction.TOWARDS_RECEIVER else Direction.TOWARDS_RECEIVER
        raw = bytes(pdu.pack())
        ent = w.b if p["kind"] in TO_RECEIVER else w.a
        if p.get("at") == "other":
            ent = w.a if ent is w.b else w.b  # the same PDU arriving at the other entity (where the flipped flag "fits")
        rec = w.deliver(ent, raw, misroute=bool(p["misroute"]))
        r = from_world(w, ctx.pop, rec is not None)
        r.cfg = dict(r.cfg, sweep=p)
        return r
    finally:
        w.close()
