"""C20 - PDU routing agrees with what each handler accepts."""
from __future__ import annotations

from cfdpsim.runner import from_world
from props import insitu
from props.monitors import RoutingMonitor
from props.synthpop import synthetic

RULE = (
    "every PDU of every run is routed by the shell with get_packet_destination and compared with the 4.5.3 table; "
    "synthetic population supplies all 9 PDU kinds (Keep-Alive, Prompt, both ACK kinds) with perturbed direction flag, "
    "mode, CRC flag, id width; fault kind 'misroute' hands a PDU to the other handler of the addressed entity (must be "
    "refused by a library exception, state unchanged); history shell exercises acknowledge_inactive_eof_pdu with "
    "TERMINATED / UNDEFINED / UNRECOGNIZED and the bad-status fault ACTIVE; the table (kind x acked directive x direction "
    "x mode x crc x id width) is covered by sampling: cells hit are counted as probes rc:*; non-trivial = a synthetic "
    "PDU was both accepted and rejected in the run (or population rule)"
)
ASSUMPTIONS = [
    "'refused as belonging to the other side' = InvalidPduForSourceHandler / InvalidPduForDestHandler",
    "a misrouted PDU must be refused by some library exception (typically the direction check)",
]
BUDGET = {"quick": 25, "thorough": 600}


def attach(ctx):
    return [RoutingMonitor(ctx.w)]


def run_one(t):
    pop = t.weighted([6, 2, 1], "population")
    if pop == 0:
        ctx = synthetic(t, attach, force={"msgs": 0})
        w = ctx.w
        try:
            return from_world(w, ctx.pop, ctx.nontrivial)
        finally:
            w.close()
    return insitu.run(t, {["bounded_faults", "chaos"][pop - 1]: 1}, attach, force={"shell": "history"})
