"""C19 - put requests are admitted, parameterised and identified correctly.

Entity a runs two SourceHandler instances sharing one sequence number provider; its MIB knows the
real peer b (two destination handlers, dispatched by transaction id) and a second remote entity
with a different configuration that nobody answers. A tape-driven user issues valid, invalid and
premature put requests between any two handler calls. A twin run without the premature requests
must give the same trace (non-interference).
"""
from __future__ import annotations

from pathlib import Path

from cfdpsim.runner import from_world
from cfdpsim.tape import Tape
from cfdpsim.world import ACK, UNACK, Cfg, World, tid_of, tid_t
from props.monitors import Monitor
from props.pops import Ctx

from spacepackets.util import UnsignedByteField

from cfdppy.handler.dest import DestHandler
from cfdppy.handler.source import SourceHandler
from cfdppy.mib import RemoteEntityCfg
from cfdppy.request import PutRequest

RULE = (
    "one entity with two source handlers sharing a sequence provider, a peer with two destination handlers, a second "
    "remote-entity configuration (other mode / closure / segment length / packet length / CRC flag / id width) that nobody "
    "answers; 2..8 put requests per run issued after tape-chosen handler calls on either source handler: request-level "
    "mode in {none, acknowledged, unacknowledged} x closure in {none, true, false} x destination {peer, second remote, "
    "unknown entity} x source file {present, other present file, missing}; whether a request is premature follows from "
    "the schedule; every run is executed twice, the second time without the premature requests, and the traces are "
    "compared; non-trivial = at least one premature, one invalid and two accepted requests; distinct = interleaving signature"
)
ASSUMPTIONS = [
    "expected mode / closure = the request's value when given, else the value of the remote-entity configuration of the "
    "request's destination; expected segment length = min(configured maximum, max packet length - header - 4 - CRC)",
    "a premature request (handler busy by its public state) must return False without raising, whatever it names",
]
BUDGET = {"quick": 25, "thorough": 600}

MISSING = "src/missing.bin"


class PutModel(Monitor):
    def __init__(self, w, remotes):
        self.w = w
        self.remotes = remotes  # dest id value -> dict(mode, closure, seg, mpl, crc, idw)
        self.cur = {}  # handler key -> expectation of the running transaction
        self.tids = []
        self.stats = {"premature": 0, "invalid": 0, "accepted": 0}
        self.trace = []
        self.skip_calls = set()

    # -- judged put request (called by the user script right after w.call)
    def on_put(self, rec, spec) -> None:
        w = self.w
        hk = rec.hk
        busy = rec.pre.state != "IDLE"
        tag = f"{hk} busy={busy} dest={spec['dest']} file={spec['file']} mode={spec['mode']} closure={spec['closure']}"
        if busy:
            self.stats["premature"] += 1
            if rec.exc is not None:
                w.violate("C19.premature_raises", f"{rec.exc!r} {tag}", "")
            elif rec.ret is not False:
                w.violate("C19.premature_accepted", f"ret={rec.ret} step={rec.pre.step} {tag}", "")
            if rec.pre.key() != rec.post.key() or rec.emitted or rec.inds or rec.faults:
                w.violate("C19.premature_changes_state", tag, f"{rec.pre.key()} -> {rec.post.key()}")
            return
        invalid = []
        if spec["file"] == "missing":
            invalid.append("SourceFileDoesNotExist")
        if spec["dest"] == "unknown":
            invalid.append("NoRemoteEntityCfgFound")
        if invalid:
            self.stats["invalid"] += 1
            if rec.exc is None or rec.exc.cls not in invalid:
                w.violate("C19.invalid_not_refused", f"exc={rec.exc!r} ret={rec.ret} want={'|'.join(invalid)} {tag}", "")
            if rec.post.state != "IDLE":
                w.violate("C19.invalid_leaves_busy", f"state={rec.post.state} {tag}", "")
            self.cur[hk] = {"invalid": True}
            return
        if rec.exc is not None or rec.ret is not True:
            w.violate("C19.valid_refused", f"exc={rec.exc!r} ret={rec.ret} {tag}", "")
            return
        self.stats["accepted"] += 1
        rc = self.remotes[spec["dest"]]
        mode = spec["mode"] if spec["mode"] is not None else rc["mode"]
        closure = spec["closure"] if spec["closure"] is not None else rc["closure"]
        idw = max(w.cfg.idw_a, spec.get("dest_idw") or rc["idw"])
        hdr = 4 + 2 * idw + w.cfg.seqw
        derived = rc["mpl"] - hdr - 4 - (2 if rc["crc"] else 0)
        eff = derived if rc["seg"] is None else min(rc["seg"], derived)
        self.cur[hk] = {
            "mode": int(mode), "closure": bool(closure), "eff_seg": eff, "crc": int(rc["crc"]), "size": spec["size"],
            "dest_val": rc["id"], "idw": idw, "started": False, "tid": None, "issued_before": len(w.a.seqp.issued),
            "after_invalid": self.cur.get(hk, {}).get("invalid", False),
        }
        if rec.post.state != "BUSY":
            w.violate("C19.accepted_not_busy", tag, "")

    def on_call(self, w, rec) -> None:
        if rec.op == "put" and rec.ret is False and rec.exc is None:
            pass
        else:
            self.trace.append(
                (rec.t, rec.ent, rec.hk, rec.op, rec.inb_info, tuple(e.info for e in rec.emitted), tuple(rec.inds), tuple(rec.faults),
                 None if rec.exc is None else rec.exc.cls, rec.post.step, rec.post.progress)
            )
        if rec.ent != "a" or not rec.hk.startswith("src") or rec.op != "sm":
            return
        m = self.cur.get(rec.hk)
        if not m or m.get("invalid"):
            if rec.emitted and not m:
                w.violate("C19.emission_without_request", f"{rec.hk}", "")
            return
        if not m["started"]:
            m["started"] = True
            # the first call after acceptance starts the transaction: exactly one sequence number
            issued = w.a.seqp.issued
            took = len(issued) - m["issued_before"]
            ti = [i for i in rec.inds if i[0] == "transaction"]
            if rec.exc is not None:
                w.violate("C19.start_raises", f"{rec.exc!r} {rec.hk}", "")
                return
            if took < 1:
                w.violate("C19.sequence_provider_not_used", f"{rec.hk}", "")
            if ti:
                tid = ti[0][1]
                m["tid"] = tid
                if tid in self.tids:
                    w.violate("C19.transaction_id_reused", f"{tid}", f"all={self.tids}")
                self.tids.append(tid)
                # the id is one of the values the provider handed out during this call
                got = issued[m["issued_before"]:] if took >= 1 else []
                if tid[1] not in got:
                    w.violate("C19.sequence_number", f"tid seq={tid[1]} provider gave {got[:3]}", "")
        nak_in = rec.inb_kind == "NAK"
        for em in rec.emitted:
            if em.pdu is None:
                continue
            h = em.pdu.pdu_header
            if m["tid"] is not None and tid_of(em.pdu) != m["tid"]:
                w.violate("C19.pdu_transaction_id", f"{em.kind} {tid_of(em.pdu)} vs {m['tid']}", "")
            if int(h.transmission_mode) != m["mode"]:
                w.violate("C19.mode_resolution", f"{em.kind} mode={int(h.transmission_mode)} want={m['mode']}", f"{rec.hk}")
            if int(h.crc_flag) != m["crc"]:
                w.violate("C19.remote_cfg_crc", f"{em.kind} crc={int(h.crc_flag)} want={m['crc']}", "")
            if h.dest_entity_id.value != m["dest_val"]:
                w.violate("C19.destination_id", f"{em.kind} dest={h.dest_entity_id.value} want={m['dest_val']}", "")
            if h.dest_entity_id.byte_len != m["idw"] or h.source_entity_id.byte_len != m["idw"]:
                w.violate("C19.id_width", f"{em.kind} {h.source_entity_id.byte_len}/{h.dest_entity_id.byte_len} want={m['idw']}", "")
            if em.kind == "MD" and em.info[5] != m["closure"]:
                w.violate("C19.closure_resolution", f"closure={em.info[5]} want={m['closure']}", f"{rec.hk}")
            if em.kind == "FD":
                off, ln = em.info[1], em.info[2]
                if ln > m["eff_seg"]:
                    w.violate("C19.segment_len", f"len={ln} > {m['eff_seg']}", f"off={off}")
                elif not nak_in and off + ln <= m["size"] and ln != min(m["eff_seg"], m["size"] - off) and off % m["eff_seg"] == 0:
                    w.violate("C19.segment_len", f"len={ln} want={min(m['eff_seg'], m['size'] - off)}", f"off={off}")


def scenario(t, skip_premature: bool):
    f = {"shell": "history", "metadata_only": False, "msgs": 0, "poll_ms": [100, 50, 200][t.choose(3, "poll")],
         "req_mode_given": True, "req_closure_given": True, "mib_mode_other": False, "mib_closure_other": False}
    cfg = Cfg.draw(t, f)
    if cfg.size // max(cfg.eff_seg, 1) > 20:
        cfg.size_sel = 6
        cfg.finish()
    w = World(t, cfg)
    ctx = Ctx(w, "put")
    a, b = w.a, w.b
    # second source handler sharing the provider, second destination handler at the peer
    a.handlers["src2"] = SourceHandler(a.lcfg, a.user, a.table, a.timers, a.seqp)
    b.handlers["dst2"] = DestHandler(b.lcfg, b.user, b.table, b.timers)
    # second remote entity (nobody answers)
    g_idw = [1, 2, 4, 8][t.choose(4, "ghost idw")]
    g_crc = bool(t.choose(2, "ghost crc"))
    g_mode = UNACK if cfg.mib_mode == ACK else ACK
    g_closure = not cfg.mib_closure
    g_hdr = 4 + 2 * max(cfg.idw_a, g_idw) + cfg.seqw
    g_min = g_hdr + 1 + 16 + (2 if g_crc else 0) + 2
    g_mpl = [g_min + 3, 300, g_min, g_hdr + 40][t.choose(4, "ghost mpl")]
    g_seg = [None, 4, 7, 1000][t.choose(4, "ghost seg")]
    ghost = RemoteEntityCfg(
        entity_id=UnsignedByteField(3, g_idw), max_file_segment_len=g_seg, max_packet_len=g_mpl, closure_requested=g_closure,
        crc_on_transmission=g_crc, default_transmission_mode=g_mode, crc_type=cfg.ck,
        positive_ack_timer_interval_seconds=cfg.ack_s, positive_ack_timer_expiration_limit=cfg.ack_lim,
        check_limit=cfg.check_lim, disposition_on_cancellation=False, immediate_nak_mode=True,
        nak_timer_interval_seconds=cfg.nak_s, nak_timer_expiration_limit=cfg.nak_lim,
    )
    a.table.add_config(ghost)
    remotes = {
        "peer": {"id": 2, "mode": cfg.mib_mode, "closure": cfg.mib_closure, "seg": cfg.seg, "mpl": cfg.mpl, "crc": cfg.crc, "idw": cfg.idw_b},
        "ghost": {"id": 3, "mode": g_mode, "closure": g_closure, "seg": g_seg, "mpl": g_mpl, "crc": g_crc, "idw": g_idw},
    }
    other_bytes = bytes((i * 11 + 5) & 0xFF for i in range(max(cfg.size // 2, 3)))
    w.vfs_a.h_put("src/b.bin", other_bytes)
    sizes = {"a": len(w.src_bytes), "b": len(other_bytes)}

    def route(ent, pdu, hk):
        tid = tid_of(pdu)
        keys = [k for k in ent.handlers if k.startswith(hk)]
        for k in keys:
            if tid_t(ent.handlers[k].transaction_id) == tid and ent.handlers[k].state.name != "IDLE":
                return k
        for k in keys:
            if tid in ent.closed[k]:
                return k
        if hk == "dst":
            for k in keys:
                if ent.handlers[k].state.name == "IDLE":
                    return k
            return None
        return keys[0]

    w.route_hook = route
    w.link.hook = lambda src, dst, em, key: ("drop",) if (em.pdu is not None and em.pdu.dest_entity_id.value == 3 and src is a) else None
    pm = PutModel(w, remotes)
    ctx.info["pm"] = pm
    w.monitors.append(pm)
    w.polled = (("a", "src"), ("a", "src2"), ("b", "dst"), ("b", "dst2"))
    if t.choose(4, "link faults") == 3:
        w.link.enabled = {"drop", "delay"}
        w.link.rate = (1, 8)
        w.link.budget = 2
    nseg = cfg.size // max(cfg.eff_seg, 1)
    horizon = 14 + 3 * nseg
    n_ops = 2 + t.choose(7, "n puts")
    plan = sorted(t.choose(horizon, "put after call") for _ in range(n_ops))
    counter = {"n": 0, "dst": 0}
    pool = []  # (request object, (mode, closure) as the user gave them)

    def do_put(w2):
        hk = ["src", "src2"][t.choose(2, "put handler")]
        dest = ["peer", "peer", "ghost", "unknown"][t.weighted([4, 4, 3, 1], "put dest") % 4]
        file = ["a", "b", "missing"][t.weighted([5, 3, 1], "put file")]
        mode = [None, ACK, UNACK][t.choose(3, "put mode")]
        closure = [None, True, False][t.choose(3, "put closure")]
        counter["dst"] += 1
        h = a.handlers[hk]
        premature = h.state.name != "IDLE"
        if h.num_packets_ready:
            return
        # the request may name the destination with another id width than the MIB entry (lookup is by value);
        # only widths whose header still fits the remote's maximum packet length (precondition of the properties)
        rcw = remotes.get(dest)
        dest_idw = None
        wsel = [None, 1, 2, 4, 8][t.weighted([4, 1, 1, 1, 1], "put dest id width")]
        if rcw is not None and wsel is not None:
            hdr_w = 4 + 2 * max(cfg.idw_a, wsel) + cfg.seqw
            if hdr_w + 1 + 16 + (2 if rcw["crc"] else 0) + 2 <= rcw["mpl"]:
                dest_idw = wsel
        dest_id = {"peer": b.eid if dest_idw is None else UnsignedByteField(2, dest_idw),
                   "ghost": UnsignedByteField(3, g_idw if dest_idw is None else dest_idw),
                   "unknown": UnsignedByteField(9, cfg.idw_a)}[dest]
        src_path = MISSING if file == "missing" else f"src/{file}.bin"
        # a third of the requests re-use a request OBJECT the user submitted before (kept with the values the user
        # gave it: mode / closure possibly "not given"), re-targeted to this destination and file
        # (only objects no busy handler is still working on: changing a request under a running transaction is the
        # user's own fault)
        free = [e for e in pool if not any(hh.state.name != "IDLE" and hh.get_put_request() is e[0] for k2, hh in a.handlers.items() if k2.startswith("src"))]
        reuse = t.choose(3, "re-use request object") == 2 and bool(free)
        if reuse:
            req, given = free[t.choose(len(free), "which request object")]
            req.destination_id = dest_id
            req.source_file = Path(src_path)
            req.dest_file = Path(f"dst/o{counter['dst']}.bin")
            mode, closure = given
        else:
            req = PutRequest(dest_id, Path(src_path), Path(f"dst/o{counter['dst']}.bin"), mode, closure)
        spec = {"dest": dest, "file": file, "mode": mode, "closure": closure, "size": sizes.get(file, 0), "dest_idw": dest_idw}
        if not reuse:
            pool.append((req, (mode, closure)))  # also in the twin run that does not issue the premature requests
        if premature and skip_premature:
            return
        rec = w2.call(a, hk, "put", arg=req)
        pm.on_put(rec, spec)

    class Trigger(Monitor):
        def on_call(self, w2, rec):
            if rec.op == "put":
                return
            counter["n"] += 1
            while plan and plan[0] <= counter["n"]:
                plan.pop(0)
                w2.push(w2.clock.t, ("fn", do_put))

    w.monitors.append(Trigger())
    w.max_events = 8000
    w.max_t = 400_000
    # the first request is issued at once
    w.push(0, ("fn", do_put))
    w.start_polls()
    ctx.reason = w.run(quiet_polls=12)
    st = pm.stats
    ctx.nontrivial = st["premature"] >= 1 and st["invalid"] >= 1 and st["accepted"] >= 2
    return ctx


def run_one(t):
    ctx = scenario(t, False)
    w = ctx.w
    try:
        pm = ctx.info["pm"]
        res = from_world(w, ctx.pop, ctx.nontrivial, {"premature_put": pm.stats["premature"], "invalid_put": pm.stats["invalid"]})
        trace1 = pm.trace
        had_premature = pm.stats["premature"] > 0
    finally:
        w.close()
    if had_premature and not res.violations:
        t2 = Tape(values=list(t.rec))
        ctx2 = scenario(t2, True)
        w2 = ctx2.w
        try:
            trace2 = ctx2.info["pm"].trace
            if trace1 != trace2:
                n = next((i for i, (x, y) in enumerate(zip(trace1, trace2)) if x != y), min(len(trace1), len(trace2)))
                x = trace1[n] if n < len(trace1) else None
                y = trace2[n] if n < len(trace2) else None
                from cfdpsim.world import Violation

                v = Violation("C19.premature_interferes", f"first difference at {x[1:4] if x else None} / {y[1:4] if y else None}",
                              f"with premature: {x} without: {y}")
                res.violations.append(v)
                res.log.append(f"  !! VIOLATION {v.clause} | {v.locus} | {v.detail}")
            res.probes["C19.twin_compared"] = 1
        finally:
            w2.close()
    return res
