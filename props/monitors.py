"""In-situ monitors attached to simulated worlds.

Each monitor judges per-call observations (CallRec) of the real handlers against a small model.
They are attached by the property that owns them (C07, C09, C15, C18, C20) to every population
that property samples, and report through world.violate(clause, locus, detail).
"""
from __future__ import annotations

from pathlib import Path

from cfdpsim.models import IntervalSet, ref_checksum
from cfdpsim.world import ACK, UNACK, pdu_hdr, pdu_info, pdu_kind, tid_of

from spacepackets.cfdp import TransactionId
from spacepackets.cfdp.tlv import (
    MessageToUserTlv,
    OriginatingTransactionId,
    ProxyPutRequest,
    ProxyPutRequestParams,
    ProxyPutResponse,
    ProxyPutResponseParams,
)
from spacepackets.cfdp.lv import CfdpLv
from spacepackets.cfdp.pdu.finished import FinishedParams
from spacepackets.cfdp import ConditionCode
from spacepackets.cfdp.defs import DeliveryCode, FileStatus
from spacepackets.util import ByteFieldU8, ByteFieldU16


class Monitor:
    def on_call(self, w, rec) -> None:
        pass

    def on_end(self, w) -> None:
        pass


# ---------------------------------------------------------------------------------------------
# message-to-user variants (C15)


def build_msgs(variant: int):
    """Returns (msgs_to_user list or None, expected originating id tuple or None)."""
    if variant == 0:
        return None, None
    plain = MessageToUserTlv(b"hello user")
    oid = TransactionId(ByteFieldU16(5), ByteFieldU16(77))
    oid_msg = OriginatingTransactionId(oid).to_generic_msg_to_user_tlv()
    if variant == 1:
        return [plain], None
    if variant in (7, 8):
        # the shortest legal originating id (1-byte entity id, 1-byte sequence number: value length 8) and the longest
        # (8 + 8 bytes)
        from spacepackets.util import ByteFieldU64

        o2 = TransactionId(ByteFieldU8(5), ByteFieldU8(77)) if variant == 7 else TransactionId(ByteFieldU64(5), ByteFieldU64(77))
        return [OriginatingTransactionId(o2).to_generic_msg_to_user_tlv(), plain], (5, 77)
    if variant == 2:
        return [oid_msg, plain], (5, 77)
    if variant == 3:
        resp = ProxyPutResponse(
            ProxyPutResponseParams.from_finished_params(
                FinishedParams(ConditionCode.NO_ERROR, DeliveryCode.DATA_COMPLETE, FileStatus.FILE_RETAINED)
            )
        ).to_generic_msg_to_user_tlv()
        return [resp, oid_msg], None
    if variant in (5, 6):
        # originating id BEFORE the proxy put response (and a plain message in between): the response still
        # suppresses the originating id
        resp = ProxyPutResponse(
            ProxyPutResponseParams.from_finished_params(
                FinishedParams(ConditionCode.NO_ERROR, DeliveryCode.DATA_COMPLETE, FileStatus.FILE_RETAINED)
            )
        ).to_generic_msg_to_user_tlv()
        return ([oid_msg, resp] if variant == 5 else [plain, oid_msg, plain, resp]), None
    req = ProxyPutRequest(
        ProxyPutRequestParams(ByteFieldU8(9), CfdpLv.from_str("x/src.bin"), CfdpLv.from_str("x/dst.bin"))
    ).to_generic_msg_to_user_tlv()
    return [req, plain], None


# ---------------------------------------------------------------------------------------------
# C07: sender stream model


class SenderStream(Monitor):
    """Judges everything entity a's source handler emits for the run's put request."""

    P = "C07"

    def __init__(self, w, expect_complete_on_idle: bool = True, prefix: str = "C07"):
        self.P = prefix
        c = w.cfg
        self.size = len(w.src_bytes)
        self.data = w.src_bytes
        self.seg = c.eff_seg
        self.next = 0  # next original tile offset
        self.first = True
        self.tid = None
        self.hdr = None
        self.md_raw = None
        self.eof_seen = False
        self.cancel_eof = False
        self.cancelled = False
        self.tiles = 0

    def on_cancel(self, w, rec, side, wrong, tid) -> None:
        if side == 0 and rec.ret is True:
            self.cancelled = True

    def on_call(self, w, rec) -> None:
        if rec.ent != "a" or rec.hk != "src":
            return
        c = w.cfg
        nak_in = rec.inb_kind == "NAK"
        n_fd = 0
        for em in rec.emitted:
            if em.pdu is None:
                w.violate(self.P + ".parsable", f"kind=?? len={len(em.raw)}", em.raw.hex()[:60])
                continue
            pdu = em.pdu
            k = em.kind
            h = pdu_hdr(pdu)
            # header clauses
            if self.tid is None:
                self.tid = tid_of(pdu)
                self.hdr = h
            if tid_of(pdu) != self.tid:
                w.violate(self.P + ".same_tid", f"{k}", f"{tid_of(pdu)} vs {self.tid}")
            if h[3][1] != h[4][1]:
                w.violate(self.P + ".id_width", f"{k} src={h[3][1]} dst={h[4][1]}", "")
            if h[1] != int(c.mode):
                w.violate(self.P + ".mode", f"{k} mode={h[1]}", "")
            if h[2] != int(c.crc):
                w.violate(self.P + ".crc_flag", f"{k} crc={h[2]} want={int(c.crc)}", "")
            if h[0] != 0:  # everything the file sender emits travels towards the receiver
                w.violate(self.P + ".direction", f"{k} dir={h[0]}", "")
            if h[5][1] != c.seqw:
                w.violate(self.P + ".seq_width", f"{k} {h[5][1]} want={c.seqw}", "")
            if int(pdu.pdu_header.pdu_conf.file_flag) != 0 and self.size < (1 << 32):
                w.violate(self.P + ".large_file_flag", f"{k} carries the large-file flag for a file of {self.size} bytes", "")
            try:
                again = bytes(pdu.pack())
            except Exception as e:  # noqa: BLE001
                again = None
                w.violate(self.P + ".roundtrip", f"{k} repack {type(e).__name__}", "")
            if again is not None and again != em.raw:
                w.violate(self.P + ".roundtrip", f"{k}", f"{em.raw.hex()[:40]} vs {again.hex()[:40]}")
            if k in ("FD", "EOF", "ACK") and len(em.raw) > c.mpl:
                w.violate(self.P + ".max_packet_len", f"{k} len={len(em.raw)} mpl={c.mpl}", "")
            if em.obj_len != len(em.raw):
                w.violate(self.P + ".packet_len_property", f"{k} {em.obj_len} vs {len(em.raw)}", "")
            # stream clauses
            if self.first:
                self.first = False
                if k != "MD":
                    w.violate(self.P + ".first_is_metadata", f"first={k}", "")
            if k == "MD":
                inf = em.info
                if c.metadata_only:
                    if inf[5] != c.closure:
                        w.violate(self.P + ".metadata_fields", f"md_only closure={inf[5]}", "")
                else:
                    want = ("MD", self.size, w.src_path, w.dst_req, int(c.ck), c.closure)
                    if inf[:6] != want:
                        w.violate(self.P + ".metadata_fields", _diff(inf[:6], want), f"{inf} vs {want}")
                if self.md_raw is None:
                    self.md_raw = em.raw
                elif em.raw != self.md_raw:
                    w.violate(self.P + ".metadata_resend_identical", "", "")
            elif k == "FD":
                off, ln = em.info[1], em.info[2]
                body = bytes(pdu.file_data)
                if ln > self.seg:
                    w.violate(self.P + ".segment_len", f"len={ln} seg={self.seg}", f"off={off}")
                if off + ln > self.size or body != self.data[off : off + ln]:
                    w.violate(self.P + ".file_bytes", f"off+len>size={off + ln > self.size}", f"off={off} len={ln}")
                if nak_in:
                    continue  # retransmission: judged by C08; here only the generic clauses
                n_fd += 1
                if self.eof_seen or self.cancelled:
                    # after EOF (or cancel) nothing original may follow
                    if off >= self.next and not nak_in:
                        w.violate(self.P + ".no_data_after_eof", f"off={off} next={self.next}", "")
                    continue
                if off != self.next:
                    if off < self.next:
                        # a retransmission emitted in a later call than the NAK (not how the source
                        # works today; tolerated: it is inside what was sent)
                        w.probe("C07.late_retransmission")
                        continue
                    w.violate(self.P + ".tiling", f"off={off} expected={self.next}", "")
                want_len = min(self.seg, self.size - off)
                if ln != want_len:
                    w.violate(self.P + ".tiling", f"len={ln} want={want_len}", f"off={off}")
                self.next = off + ln
                self.tiles += 1
            elif k == "EOF":
                cond = em.info[1]
                if cond == 0:
                    if self.next != self.size and not c.metadata_only:
                        w.violate(self.P + ".eof_after_all_data", f"next={self.next} size={self.size}", "")
                    if em.info[2] != self.size:
                        w.violate(self.P + ".eof_size", f"eof={em.info[2]} size={self.size}", "")
                    if em.info[3] != ref_checksum(int(c.ck), self.data).hex():
                        w.violate(self.P + ".eof_checksum", f"ck={c.ck.name}", f"{em.info[3]}")
                    self.eof_seen = True
                else:
                    # an EOF (cancel) covers the file bytes sent so far - and so does every copy of it that is re-sent later
                    # (nothing original is sent after a cancellation, so the number cannot change any more)
                    if not c.metadata_only and em.info[2] != self.next and w.fs_fault_x is None:
                        w.violate(self.P + ".eof_cancel_size", f"eof={em.info[2]} file bytes sent={self.next} cond={cond} first={not self.cancel_eof}", "")
                    elif not c.metadata_only and em.info[3] != ref_checksum(int(c.ck), self.data[: em.info[2]]).hex():
                        w.violate(self.P + ".eof_cancel_checksum", f"ck={c.ck.name} size={em.info[2]} first={not self.cancel_eof}", "")
                    self.cancel_eof = True
        if n_fd > 1:
            w.violate(self.P + ".one_fd_per_call", f"n={n_fd}", "")

    def on_end(self, w) -> None:
        if self.eof_seen and self.next != self.size:
            w.violate(self.P + ".complete", f"next={self.next} size={self.size}", "")


def _diff(a, b) -> str:
    names = ("kind", "size", "src_name", "dst_name", "ck", "closure")
    return ",".join(n for n, x, y in zip(names, a, b) if x != y)


# ---------------------------------------------------------------------------------------------
# C09: checksums as they occur in transfers


class ChecksumMonitor(Monitor):
    def __init__(self, w, chunk_knob: bool = True):
        self.chunk_knob = chunk_knob
        self.sent_end = 0
        self.eof_ck = None
        self.eof_size = None
        w.user_hooks_b.append(self._hook_b)
        self.w = w

    def on_call(self, w, rec) -> None:
        c = w.cfg
        if rec.ent == "a" and rec.hk == "src":
            if rec.op == "put" and rec.ret is True and "PREMATURE" not in rec.tags:
                self.sent_end = 0  # a new transaction
            for em in rec.emitted:
                if em.kind == "FD" and em.pdu is not None:
                    self.sent_end = max(self.sent_end, em.info[1] + em.info[2])
                if em.kind == "EOF" and em.pdu is not None:
                    size = em.info[2]
                    cond = em.info[1]
                    if size > len(w.src_bytes):
                        w.violate("C09.eof_size_in_file", f"cond={cond} size={size}>{len(w.src_bytes)}", "")
                        continue
                    # "... for the bytes it has sent": the EOF covers exactly the file bytes handed out so far (the whole file
                    # for a No Error EOF, the sent prefix at a cancellation), also when it is re-sent after retransmissions
                    if not c.metadata_only and size != self.sent_end and w.fs_fault_x is None:
                        w.violate("C09.eof_covers_bytes_sent", f"cond={'cancel' if cond else 'noerr'} eof_size={size} bytes_sent={self.sent_end} "
                                  f"resend={rec.inb is None and rec.pre.step == 'WAITING_FOR_EOF_ACK'}", "")
                    want = ref_checksum(int(c.ck), w.src_bytes[:size]).hex()
                    w.probe("C09.eof_checked")
                    if size < len(w.src_bytes):
                        w.probe("C09.eof_prefix_checked")
                    if em.info[3] != want:
                        w.violate(
                            "C09.eof_checksum",
                            f"ck={c.ck.name} cond={'cancel' if cond else 'noerr'} prefix={size < len(w.src_bytes)} "
                            f"resend={rec.inb is None and rec.pre.step == 'WAITING_FOR_EOF_ACK'}",
                            f"size={size} got={em.info[3]} want={want}",
                        )
                    # the sending user re-computes the checksum of what was sent through the filestore API with
                    # its own chunk length (a tuning knob, drawn per call): the result must not depend on it
                    if not c.metadata_only and self.chunk_knob:
                        seg = max(c.eff_seg, 1)
                        chunk = [4096, 1, 3, 7, max(seg - 1, 1), seg + 1, 1000][w.tape.choose(7, "user chunk length")]
                        try:
                            got = w.vfs_a.calculate_checksum(c.ck, Path(w.src_path), size, chunk)
                            ok = w.vfs_a.verify_checksum(bytes.fromhex(want), c.ck, Path(w.src_path), size, chunk)
                            # ... and a checksum that is NOT the file's must be refused, whatever the type (also the null type:
                            # its checksum is four zero bytes)
                            wrong = bytes(b ^ 0x5A for b in bytes.fromhex(want))
                            if w.vfs_a.verify_checksum(wrong, c.ck, Path(w.src_path), size, chunk) is not False:
                                w.violate("C09.verify_accepts_wrong_checksum", f"ck={c.ck.name} vfs={c.vfs}", f"size={size} supplied={wrong.hex()} file's={want}")
                        except Exception as e:  # noqa: BLE001
                            w.violate("C09.calculate_raises", f"{type(e).__name__} ck={c.ck.name}", f"size={size} chunk={chunk}")
                        else:
                            w.probe("C09.user_chunk_checked")
                            if size % chunk:
                                w.probe("C09.prefix_not_multiple_of_chunk")
                            # the same filestore object is then asked for another checksum type of the same prefix
                            # (a user cross-checking with a second algorithm): results must not leak between types
                            oth = [3, 2, 0, 15][w.tape.choose(4, "user second checksum type")]
                            if oth != int(c.ck):
                                from spacepackets.cfdp import ChecksumType as _CT

                                try:
                                    g2 = w.vfs_a.calculate_checksum(_CT(oth), Path(w.src_path), size, chunk)
                                    g1 = w.vfs_a.calculate_checksum(c.ck, Path(w.src_path), size, chunk)
                                except Exception as e:  # noqa: BLE001
                                    w.violate("C09.calculate_raises", f"{type(e).__name__} second type={oth}", f"size={size} chunk={chunk}")
                                else:
                                    w.probe("C09.second_type_checked")
                                    if bytes(g2) != ref_checksum(oth, w.src_bytes[:size]) or bytes(g1).hex() != want:
                                        w.violate("C09.type_interference", f"first={c.ck.name} second={oth} vfs={c.vfs}",
                                                  f"size={size} chunk={chunk} second={bytes(g2).hex()} first_again={bytes(g1).hex()}")
                            if bytes(got).hex() != want or ok is not True:
                                w.violate(
                                    "C09.chunk_dependence",
                                    f"ck={c.ck.name} prefix={size < len(w.src_bytes)} prefix%chunk={'0' if size % chunk == 0 else 'nz'} vfs={c.vfs}",
                                    f"size={size} chunk={chunk} got={bytes(got).hex()} want={want} verify={ok}",
                                )
        if rec.ent == "b" and rec.hk == "dst" and rec.inb_kind == "EOF" and rec.exc is None:
            self.eof_ck = rec.inb_info[3]
            self.eof_size = rec.inb_info[2]

    def _hook_b(self, ent, item) -> None:
        """Destination user callback, executed at the moment of the indication."""
        w = self.w
        c = w.cfg
        if item[0] != "finished" or c.metadata_only:
            return
        cond, deliv, status = item[2]
        if self.eof_ck is None or int(c.ck) == 15:
            return
        got = w.dst_bytes()
        if deliv == 0 and cond == 0 and got is not None:
            w.probe("C09.completion_checked")
            have = ref_checksum(int(c.ck), got[: self.eof_size]).hex()
            if have != self.eof_ck:
                w.violate("C09.complete_implies_checksum", f"ck={c.ck.name}", f"{have} vs eof {self.eof_ck}")
            # the user verifies the delivered file through the filestore API
            vfs = w.vfs_b_inner
            try:
                ok = vfs.verify_checksum(bytes.fromhex(self.eof_ck), c.ck, Path(w.dst_path), self.eof_size)
                bad = bytearray(bytes.fromhex(self.eof_ck))
                bad[3] ^= 1
                nok = vfs.verify_checksum(bytes(bad), c.ck, Path(w.dst_path), self.eof_size)
            except Exception as e:  # noqa: BLE001
                w.violate("C09.verify_raises", f"{type(e).__name__} ck={c.ck.name}", str(e)[:80])
                return
            w.probe("C09.verify_checked")
            if ok is not True or nok is not False:
                w.violate("C09.verify_checksum", f"ck={c.ck.name} ok={ok} nok={nok} vfs={c.vfs}", "")


# ---------------------------------------------------------------------------------------------
# C15: indications


RECV_STEPS = ("RECEIVING_FILE_DATA", "RECV_FILE_DATA_WITH_CHECK_LIMIT_HANDLING", "WAITING_FOR_MISSING_DATA")


class IndicationMonitor(Monitor):
    def __init__(self, w, strict_order: bool = False, msgs_expect_oid=None, msgs=None):
        self.strict = strict_order
        self.blind = False
        self.finished_tids_b = set()
        self.done_tids = set()
        self.src_cancelled = False
        self.oid = msgs_expect_oid
        self.msgs = msgs
        self.order = {"a": [], "b": []}
        self.eof_emitted = False
        self.put_ok_pending = False
        self.fin_emitted_b = False
        self.fin_accepted_a = None
        self.last_fin_ind_b = None
        self.md_pdu_msgs = None

    def on_call(self, w, rec) -> None:
        c = w.cfg
        if (rec.ent, rec.hk) not in (("a", "src"), ("b", "dst")):
            return  # the model follows the sending handler of a and the receiving handler of b
        if w.ents[rec.ent].nodrain or not w.ents[rec.ent].drained.get(rec.hk, True):
            # the shell left PDUs in the handler: what is emitted per call is not observable any more, so the
            # clauses that match indications with emissions are switched off for the rest of the run
            self.blind = True
        bits = c.ind_a if rec.ent == "a" else c.ind_b
        names = [i[0] for i in rec.inds]
        for i in rec.inds:
            self.order[rec.ent].append(i[0])
        # --- gating
        for nm, bit in (("eof_sent", 1), ("eof_recv", 2), ("file_segment_recv", 4), ("finished", 8)):
            if nm in names and not bits & bit:
                w.violate("C15.disabled_delivered", f"{rec.ent}.{rec.hk} {nm}", "")
        # --- transaction id of every indication = id of the PDUs of that transaction
        want_tid = rec.post.tid or rec.pre.tid
        for i in rec.inds:
            if i[1] is None:
                w.violate("C15.tid_none", f"{rec.ent}.{rec.hk} {i[0]}", "")
            elif want_tid is not None and i[1] != want_tid and rec.inb is None:
                w.violate("C15.tid", f"{rec.ent}.{rec.hk} {i[0]}", f"{i[1]} vs {want_tid}")
            elif rec.inb is not None and i[0] in ("metadata_recv", "file_segment_recv", "eof_recv") and i[1] != tid_of(rec.inb):
                w.violate("C15.tid", f"{rec.ent}.{rec.hk} {i[0]}", f"{i[1]} vs pdu {tid_of(rec.inb)}")
        # --- a transaction that ends (handler busy before the call, idle after it) without having been abandoned by a
        # fault handler or reset by the user is completed: Transaction-Finished is the indication of that event
        for i in rec.inds:
            if i[0] == "finished":
                self.done_tids.add((rec.ent, rec.hk, i[1]))
        if (
            rec.op in ("sm", "cancel") and rec.pre.state == "BUSY" and rec.post.state == "IDLE" and rec.pre.tid is not None
            and (rec.exc is None or rec.exc.is_lib) and not any(f[0] == "abandon" for f in rec.faults)
        ):
            w.probe(f"C15.completed:{rec.ent}.{rec.hk}")
            if bits & 8 and (rec.ent, rec.hk, rec.pre.tid) not in self.done_tids:
                w.violate("C15.missing", f"{rec.ent}.{rec.hk} finished: transaction ended without Transaction-Finished indication "
                          f"(op={rec.op} in={rec.inb_kind} step={rec.pre.step} mode={c.mode.name[:5]} closure={c.closure})", "")
        if self.blind:
            return
        if rec.hk == "src":
            self._sender(w, rec, names, bits)
        else:
            self._receiver(w, rec, names, bits)

    def _sender(self, w, rec, names, bits):
        c = w.cfg
        if (rec.op == "cancel" and rec.ret) or rec.faults:
            self.src_cancelled = True
        if rec.op == "put":
            if rec.ret is True and rec.exc is None:
                self.put_ok_pending = True
            return
        if rec.op != "sm":
            return
        eofs = [e for e in rec.emitted if e.kind == "EOF"]
        # no indication without its event
        if "eof_sent" in names and not eofs:
            w.violate("C15.no_event", f"a.src eof_sent without EOF emission", "")
        if names.count("eof_sent") > len(eofs):
            w.violate("C15.no_event", f"a.src eof_sent x{names.count('eof_sent')} for {len(eofs)} EOF", "")
        if "transaction" in names:
            if not self.put_ok_pending:
                w.violate("C15.no_event", "a.src transaction without accepted put", "")
            ti = [i for i in rec.inds if i[0] == "transaction"][0]
            if ti[2] != self.oid:
                w.violate("C15.originating_id", f"got={ti[2]} want={self.oid} msgs={w.cfg.msgs}", "")
        # no event without its indication
        if self.put_ok_pending and rec.exc is None:
            if "transaction" not in names:
                w.violate("C15.missing", "a.src transaction (first call after accepted put)", "")
            self.put_ok_pending = False
        if eofs and not self.eof_emitted:
            self.eof_emitted = True
            if bits & 1 and "eof_sent" not in names:
                w.violate("C15.missing", "a.src eof_sent at first EOF emission", "")
        if "transaction" in names:
            self.fin_accepted_a = None  # a new transaction: Finished PDUs of earlier ones bind nothing
        if rec.inb_kind == "FIN" and rec.exc is None and rec.pre.step not in (
            "SENDING_ACK_OF_FINISHED", "NOTICE_OF_COMPLETION", "IDLE"
        ) and (
            (c.mode == ACK and rec.post.step == "SENDING_ACK_OF_FINISHED")
            or (c.mode == UNACK and c.closure and "finished" in names and rec.post.state == "IDLE")
        ):
            # the Finished PDU was processed: acknowledged mode acknowledges it, unacknowledged mode completes at once
            self.fin_accepted_a = rec.inb_info
        if "finished" in names:
            fi = [i for i in rec.inds if i[0] == "finished"][0]
            if self.fin_accepted_a is None and c.mode == UNACK and not c.closure and not self.src_cancelled and fi[2] != (0, 0, 3):
                # no Finished PDU exists for this completion: nothing of another transaction's may be reported
                w.violate("C15.finished_params_sender", f"ind={fi[2]} without any Finished PDU (unacknowledged, no closure)", "")
            if self.fin_accepted_a is not None:
                want = tuple(self.fin_accepted_a[1:4])
                if fi[2] != want:
                    w.violate("C15.finished_params_sender", f"ind={fi[2]} fin_pdu={want}", "")

    def _receiver(self, w, rec, names, bits):
        if rec.op != "sm":
            return
        k = rec.inb_kind
        # no indication without its event, parameters match
        for i in rec.inds:
            if i[0] == "metadata_recv":
                if k != "MD":
                    w.violate("C15.no_event", f"b.dst metadata_recv on {k}", "")
                else:
                    md = rec.inb
                    fs = None if md.source_file_name is None else md.file_size
                    opts = md.options_as_tlv() or []
                    msgs = tuple(bytes(o.pack()) for o in opts if int(o.tlv_type) == 2)
                    want = (md.source_entity_id.value, fs, md.source_file_name, md.dest_file_name, msgs if md.options_as_tlv() is not None else None)
                    got = i[2]
                    if got[:4] != want[:4]:
                        w.violate("C15.metadata_params", _mdiff(got, want), f"{got} vs {want}")
                    gm = got[4] or ()
                    wm = want[4] or ()
                    if tuple(gm) != tuple(wm):
                        w.violate("C15.metadata_msgs", f"n={len(gm)} want={len(wm)}", "")
            elif i[0] == "file_segment_recv":
                if k != "FD":
                    w.violate("C15.no_event", f"b.dst file_segment_recv on {k}", "")
                elif i[2] != (rec.inb_info[1], rec.inb_info[2]):
                    w.violate("C15.segment_params", "", f"{i[2]} vs pdu {rec.inb_info[1:3]}")
            elif i[0] == "eof_recv":
                if k != "EOF":
                    w.violate("C15.no_event", f"b.dst eof_recv on {k}", "")
        # no event without its indication (only unambiguous events)
        if rec.exc is None:
            if k == "FD" and rec.pre.step in RECV_STEPS and bits & 4 and "file_segment_recv" not in names:
                w.violate("C15.missing", f"b.dst file_segment_recv step={rec.pre.step}", "")
            if k == "EOF" and rec.pre.step == "RECEIVING_FILE_DATA" and bits & 2 and "eof_recv" not in names:
                w.violate("C15.missing", "b.dst eof_recv", "")
            if k == "MD" and rec.pre.step == "IDLE" and "metadata_recv" not in names:
                w.violate("C15.missing", "b.dst metadata_recv", "")
        fins = [e for e in rec.emitted if e.kind == "FIN" and e.pdu is not None]
        # causal order per transaction: once Transaction-Finished was delivered for a transaction, nothing is
        # "received" for it any more (history shell: a finished transaction is never re-opened)
        if w.cfg.shell == "history":
            for i in rec.inds:
                if i[0] in ("metadata_recv", "file_segment_recv", "eof_recv") and i[1] in self.finished_tids_b:
                    w.violate("C15.order", f"b: {i[0]} after Transaction-Finished of the same transaction step={rec.pre.step} in={k}", "")
        if "finished" in names:
            fi = [i for i in rec.inds if i[0] == "finished"][0]
            self.last_fin_ind_b = fi
            self.finished_tids_b.add(fi[1])
            if fins:
                want = tuple(fins[0].info[1:4])
                if fi[2] != want:
                    w.violate("C15.finished_params_receiver", f"ind={fi[2]} fin_pdu={want}", "")
                if fi[3] != fins[0].info[4]:
                    w.violate("C15.finished_fault_location", f"ind={fi[3]} fin_pdu={fins[0].info[4]}", "")
        # every Finished PDU reports the completion the user was told about last
        if fins and bits & 8 and self.last_fin_ind_b is not None and "finished" not in names:
            fi = self.last_fin_ind_b
            if fi[2] != tuple(fins[-1].info[1:4]) and self.fin_emitted_b:
                w.violate("C15.finished_pdu_without_indication", f"fin_pdu={fins[-1].info[1:4]} last indication={fi[2]}", f"step={rec.pre.step}")
        if fins and not self.fin_emitted_b:
            self.fin_emitted_b = True
            # the indication belongs to the completion, which may have happened in an earlier call
            # than the one that emits the Finished PDU
            if bits & 8 and self.last_fin_ind_b is None and rec.exc is None:
                w.violate("C15.missing", "b.dst finished at or before first Finished PDU emission", "")
            elif bits & 8 and self.last_fin_ind_b is not None and "finished" not in names:
                fi = self.last_fin_ind_b
                if fi[2] != tuple(fins[0].info[1:4]):
                    w.violate("C15.finished_params_receiver", f"ind={fi[2]} later_fin_pdu={fins[0].info[1:4]}", "")

    def on_end(self, w) -> None:
        if not self.strict:
            return
        rank_a = {"transaction": 0, "eof_sent": 1, "finished": 2}
        rank_b = {"metadata_recv": 0, "file_segment_recv": 1, "eof_recv": 2, "finished": 3}
        for ent, rank in (("a", rank_a), ("b", rank_b)):
            last = -1
            for nm in self.order[ent]:
                r = rank.get(nm)
                if r is None:
                    continue
                if r < last:
                    w.violate("C15.order", f"{ent}: {nm} after rank {last}", ",".join(self.order[ent])[:120])
                    break
                last = r


def _mdiff(a, b) -> str:
    names = ("source_id", "file_size", "src_name", "dst_name")
    return ",".join(n for n, x, y in zip(names, a, b) if x != y)


# ---------------------------------------------------------------------------------------------
# C20: routing agrees with admission

ROUTING_TABLE = {
    "FD": "dst", "MD": "dst", "EOF": "dst", "PROMPT": "dst", "ACK5": "dst",
    "FIN": "src", "NAK": "src", "KA": "src", "ACK4": "src",
}
OTHER_SIDE_EXC = ("InvalidPduForSourceHandler", "InvalidPduForDestHandler")


def route_key(pdu) -> str:
    k = pdu_kind(pdu)
    if k == "ACK":
        return "ACK" + str(int(pdu.directive_code_of_acked_pdu))
    return k


class RoutingMonitor(Monitor):
    def __init__(self, w):
        self.cells = set()

    def on_route(self, w, ent, pdu, hk) -> None:
        key = route_key(pdu)
        want = ROUTING_TABLE.get(key)
        h = pdu_hdr(pdu)
        self.cells.add((key, h[0], h[1], h[2], h[3][1]))
        w.probe(f"rc:{key}:dir{h[0]}:mode{h[1]}:crc{h[2]}:idw{h[3][1]}")
        if want is not None and hk != want:
            w.violate("C20.routing_table", f"{key} -> {hk} want {want}", "")

    def on_route_error(self, w, ent, pdu) -> None:
        key = route_key(pdu)
        if key in ROUTING_TABLE:
            w.violate("C20.routing_raises", f"{key} refused by the routing helper", f"{pdu_info(pdu)}")

    def on_call(self, w, rec) -> None:
        if rec.inb is None:
            return
        if "MISROUTE" in rec.tags:
            w.probe("C20.misroute")
            if rec.exc is None:
                w.violate("C20.misroute_refused", f"{route_key(rec.inb)} -> {rec.hk} accepted step={rec.pre.step}", "")
            elif not rec.exc.is_lib:
                w.violate("C20.misroute_refused_lib", f"{route_key(rec.inb)} -> {rec.hk} {rec.exc!r}", rec.exc.msg)
            if rec.pre.key() != rec.post.key() or rec.emitted:
                w.violate("C20.misroute_state", f"{route_key(rec.inb)} -> {rec.hk} step={rec.pre.step}", "")
        elif rec.exc is not None and rec.exc.cls in OTHER_SIDE_EXC:
            w.violate("C20.routed_but_refused", f"{route_key(rec.inb)} -> {rec.hk} {rec.exc.cls}", "")

    def on_inactive_ack(self, w, eof, ack) -> None:
        w.probe("C20.inactive_ack")
        # bad-status fault: a shell that passes ACTIVE must be refused
        from cfdppy.handler.dest import acknowledge_inactive_eof_pdu
        from spacepackets.cfdp.pdu import TransactionStatus
        import copy as _copy

        try:
            acknowledge_inactive_eof_pdu(_copy.deepcopy(eof), TransactionStatus.ACTIVE)
            w.violate("C20.inactive_ack_active_refused", "no exception", "")
        except ValueError:
            w.probe("C20.active_status_refused")
        except Exception as e:  # noqa: BLE001
            w.violate("C20.inactive_ack_active_refused", type(e).__name__, "")
        for st in (TransactionStatus.UNDEFINED, TransactionStatus.UNRECOGNIZED):
            try:
                a2 = acknowledge_inactive_eof_pdu(_copy.deepcopy(eof), st)
                i2 = pdu_info(a2)
                if i2[1] != 4 or i2[2] != int(eof.condition_code) or i2[3] != int(st) or int(a2.pdu_header.direction) != 1:
                    w.violate("C20.inactive_ack", f"status={int(st)} {i2}", "")
            except Exception as e:  # noqa: BLE001
                w.violate("C20.inactive_ack", f"status={int(st)} raises {type(e).__name__}", "")
        inf = pdu_info(ack)
        if inf[1] != 4 or inf[2] != int(eof.condition_code) or inf[3] != int(w.closed_status) or int(ack.pdu_header.direction) != 1:
            w.violate("C20.inactive_ack", f"{inf} dir={int(ack.pdu_header.direction)}", "")
        if tid_of(ack) != tid_of(eof):
            w.violate("C20.inactive_ack_tid", "", "")


# ---------------------------------------------------------------------------------------------
# C10 (in situ part): only protocol exceptions; admission rejections leave state unchanged

ADMISSION = (
    "InvalidPduDirection", "InvalidDestinationId", "InvalidSourceId", "InvalidTransactionSeqNum",
    "InvalidPduForSourceHandler", "InvalidPduForDestHandler", "PduIgnoredForSource", "PduIgnoredForDest",
    "NoRemoteEntityCfgFound",
)


class ExceptionMonitor(Monitor):
    def __init__(self, w, judge_admission=True):
        self.adm = judge_admission

    def on_call(self, w, rec) -> None:
        e = rec.exc
        if rec.inb is not None:
            w.probe(f"cell:{rec.hk}:{rec.pre.step}:{rec.inb_kind}:{'ok' if e is None else e.cls}")
        if e is None:
            return
        if not e.is_lib:
            if rec.op == "put" and e.cls == "ValueError" and e.func == "put_request" and rec.pre.key() == rec.post.key():
                # put_request documents ValueError for a request it cannot accept (raised before any state change)
                w.probe("C10.put_request_value_error")
                return
            if w.fs_fault is not None and e.cls in ("FileNotFoundError", "PermissionError"):
                # the user's filestore was made to fail in this population (not in C10's quantifier)
                w.probe("C10.filestore_exception_passed_on")
                return
            w.violate("C10.internal_error", f"{e.cls}@{e.func} {rec.ent}.{rec.hk} op={rec.op} in={rec.inb_kind} step={rec.pre.step}", e.msg)
            return
        if e.cls == "UnretrievedPdusToBeSent" and rec.qlen_entry == 0:
            w.violate("C10.unretrieved_with_empty_queue", f"{rec.ent}.{rec.hk} op={rec.op} in={rec.inb_kind} step={rec.pre.step}@{e.func}", "")
        if self.adm and e.cls in ADMISSION and rec.op == "sm" and rec.inb is not None:
            w.probe("C10.admission_reject")
            if rec.pre.key() != rec.post.key() or rec.emitted or rec.inds or rec.faults:
                w.violate(
                    "C10.reject_changes_state",
                    f"{e.cls} {rec.ent}.{rec.hk} in={rec.inb_kind} step={rec.pre.step}->{rec.post.step} emitted={len(rec.emitted)}",
                    f"{rec.pre.key()} -> {rec.post.key()}",
                )


def standard_monitors(w, strict_order: bool = False) -> list:
    return []


# ---------------------------------------------------------------------------------------------
# C18: lost-segment bookkeeping refines an exact interval set (in situ)


class TrackerShadow(Monitor):
    """Wraps the four public methods of LostSegmentTracker (harness side, nothing in /repo) and keeps
    a shadow IntervalSet per tracker object. An operation is judged iff it satisfies the
    preconditions of the property; otherwise it is counted and the shadow is re-synchronised."""

    active = None
    _installed = False

    def __init__(self, w):
        self.w = w
        self.shadow = {}  # id(tracker) -> IntervalSet | None (None = real state is not a set of disjoint ranges)
        self.keep = {}
        TrackerShadow.install()
        TrackerShadow.active = self

    def on_end(self, w) -> None:
        TrackerShadow.active = None

    # -- helpers
    @staticmethod
    def _items(tr):
        return list(tr.lost_segments.items())

    @staticmethod
    def _wellformed(items) -> bool:
        srt = sorted(items)
        for (a, b) in srt:
            if not a < b:
                return False
        for (x, y) in zip(srt, srt[1:]):
            if x[1] > y[0]:
                return False
        return True

    def _sync(self, tr):
        items = self._items(tr)
        if self._wellformed(items):
            self.shadow[id(tr)] = IntervalSet(items)
        else:
            self.shadow[id(tr)] = None
        self.keep[id(tr)] = tr

    def _get(self, tr):
        if id(tr) not in self.shadow:
            self._sync(tr)
        elif self.shadow[id(tr)] is None:
            self._sync(tr)
        return self.shadow[id(tr)]

    def _check_report(self, tr, op, arg, want: IntervalSet) -> None:
        w = self.w
        items = self._items(tr)
        for (a, b) in items:
            if not a < b:
                w.violate("C18.empty_range", f"after {op}", f"arg={arg} items={items}")
                return
        if items != sorted(items):
            w.violate("C18.ascending", f"after {op}", f"arg={arg} items={items}")
        got = IntervalSet(items)
        if got != want or sum(b - a for a, b in items) != want.size():
            w.violate("C18.denoted_set", f"after {op}", f"arg={arg} items={items} want={want}")
        if tr.num_lost_segments != len(items):
            w.violate("C18.count", f"after {op}", "")

    # -- wrappers
    @classmethod
    def install(cls) -> None:
        if cls._installed:
            return
        cls._installed = True
        from cfdppy.handler.dest import LostSegmentTracker as T

        o_add, o_rem, o_coa, o_reset = T.add_lost_segment, T.remove_lost_segment, T.coalesce_lost_segments, T.reset

        def add(self, lost_seg):
            m = cls.active
            if m is None:
                return o_add(self, lost_seg)
            return m._add(self, lost_seg, o_add)

        def rem(self, seg):
            m = cls.active
            if m is None:
                return o_rem(self, seg)
            return m._rem(self, seg, o_rem)

        def coa(self):
            m = cls.active
            if m is None:
                return o_coa(self)
            return m._coa(self, o_coa)

        def reset(self):
            m = cls.active
            r = o_reset(self)
            if m is not None:
                m.shadow[id(self)] = IntervalSet()
                m.keep[id(self)] = self
                if self.lost_segments:
                    m.w.violate("C18.reset", "tracker not empty after reset", "")
            return r

        T.add_lost_segment, T.remove_lost_segment, T.coalesce_lost_segments, T.reset = add, rem, coa, reset

    def _add(self, tr, seg, orig):
        w = self.w
        sh = self._get(tr)
        a, b = seg[0], seg[1]
        ok = sh is not None and a < b and not sh.overlaps(a, b)
        r = orig(tr, seg)
        if not ok:
            w.probe("C18.add_outside_preconditions")
            self._sync(tr)
            return r
        w.probe("C18.add_judged")
        sh.add(a, b)
        self._check_report(tr, "add", seg, sh)
        return r

    def _rem(self, tr, seg, orig):
        w = self.w
        sh = self._get(tr)
        a, b = seg[0], seg[1]
        before = self._items(tr)
        if sh is None:
            w.probe("C18.remove_outside_preconditions")
            try:
                return orig(tr, seg)
            finally:
                self._sync(tr)
        # classification against the ranges as tracked (adjacent ranges that were not coalesced are
        # different tracked ranges: a removal reaching from one into the next straddles the first)
        if a == b:
            kind = "empty"
        elif a > b:
            kind = "other"
        elif any(x <= a and b <= y for (x, y) in before):
            kind = "inside"
        elif not any(x < b and a < y for (x, y) in before):
            kind = "none"
        else:
            host = [(x, y) for (x, y) in before if x <= a < y]
            kind = "straddle" if host and b > host[0][1] else "other"
        try:
            r = orig(tr, seg)
        except ValueError:
            if kind == "straddle":
                w.probe("C18.straddle_refused")
                if self._items(tr) != before:
                    w.violate("C18.refusal_changes_state", "straddling removal", f"seg={seg} before={before} after={self._items(tr)}")
                    self._sync(tr)
            elif kind in ("inside", "none", "empty"):
                w.violate("C18.spurious_value_error", f"removal kind={kind}", f"seg={seg} tracked={before}")
                self._sync(tr)
            else:
                w.probe("C18.remove_outside_preconditions")
                self._sync(tr)
            raise
        except Exception as e:  # noqa: BLE001
            w.violate("C18.exception", f"remove raises {type(e).__name__} kind={kind}", f"seg={seg} tracked={before}")
            self._sync(tr)
            raise
        if kind == "straddle":
            w.violate("C18.straddle_not_refused", f"returned {r}", f"seg={seg} tracked={before} after={self._items(tr)}")
            self._sync(tr)
            return r
        if kind == "other":
            w.probe("C18.remove_outside_preconditions")
            self._sync(tr)
            return r
        w.probe(f"C18.remove_judged_{kind}")
        if kind == "inside":
            sh.remove(a, b)
            want_ret = True
        else:
            want_ret = False
        if r is not want_ret:
            w.violate("C18.remove_return", f"kind={kind} returned={r}", f"seg={seg} tracked={before}")
        self._check_report(tr, "remove", seg, sh)
        if self._items(tr) != before and not want_ret:
            w.violate("C18.noop_changes_state", f"kind={kind}", f"seg={seg} before={before} after={self._items(tr)}")
        return r

    def _coa(self, tr, orig):
        w = self.w
        sh = self._get(tr)
        r = orig(tr)
        if sh is None:
            self._sync(tr)
            return r
        w.probe("C18.coalesce_judged")
        self._check_report(tr, "coalesce", None, sh)
        items = self._items(tr)
        for x, y in zip(items, items[1:]):
            if x[1] == y[0]:
                w.violate("C18.adjacent_after_coalesce", "", f"items={items}")
                break
        if len(items) > 1:
            w.probe("C18.coalesce_multi")
        return r
