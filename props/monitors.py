"""In-situ monitors attached to simulated worlds (C07, C09, C15, C18, C20 oracles live here)."""
from __future__ import annotations


class Monitor:
    def on_call(self, w, rec) -> None:
        pass

    def on_end(self, w) -> None:
        pass


def standard_monitors(w, strict_order: bool = False) -> list:
    return []
