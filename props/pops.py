"""Populations of simulated runs shared by several properties.

Every function builds a World from the tape, lets the caller attach monitors (`attach(w)`), runs
the schedule and returns a Ctx. The caller judges, builds the RunResult and closes the world.
"""
from __future__ import annotations

from pathlib import Path

from cfdpsim.world import ACK, UNACK, Cfg, World, tid_t

from spacepackets.cfdp import TransactionId
from spacepackets.util import UnsignedByteField

from cfdppy.handler.dest import DestHandler

from props.monitors import build_msgs

BIG = 100000.0


class Ctx:
    __slots__ = ("w", "reason", "pop", "nontrivial", "info", "put_rec", "oid")

    def __init__(self, w, pop):
        self.w = w
        self.pop = pop
        self.reason = None
        self.nontrivial = False
        self.info = {}
        self.put_rec = None
        self.oid = None


def _start(ctx: Ctx, attach) -> None:
    w = ctx.w
    ctx.info["base_ind"] = len(w.ind_log)  # what a prelude transaction logged is not the run's own
    ctx.info["base_fault"] = len(w.fault_log)
    ctx.info["base_lib_excs"] = dict(w.lib_excs)
    ctx.info["base_internal"] = len(w.internal_errors)
    msgs, oid = build_msgs(w.cfg.msgs)
    ctx.oid = oid
    ctx.info["msgs"] = msgs
    # a sixth of the runs: while the transaction is running, the sending user submits a further, valid put request for
    # ANOTHER existing file (same size, other content). A busy handler refuses it (returns False); nothing of the running
    # transaction may change
    premature = None
    t = w.tape
    if not w.cfg.metadata_only and not ctx.info.get("no_premature_put") and t.choose(6, "premature put of another file") == 5:
        w.vfs_a.h_put("src/other.bin", bytes((b ^ 0xA7) for b in w.src_bytes) or b"x")
        premature = _PrematurePut(ctx, 2 + t.choose(14, "premature put after call"))
    if attach is not None:
        for m in attach(ctx):
            w.monitors.append(m)
    if premature is not None:
        w.monitors.append(premature)
    ctx.put_rec = w.call(w.a, "src", "put", arg=w.put_request_obj(msgs))
    w.start_polls()


class _PrematurePut:
    def __init__(self, ctx, after):
        self.ctx = ctx
        self.after = after
        self.n = 0
        self.done = False

    def on_call(self, w, rec):
        if self.done or rec.ent != "a" or rec.hk != "src":
            return
        self.n += 1
        if self.n >= self.after:
            self.done = True
            w.push(w.clock.t, ("fn", self._fire))

    def _fire(self, w):
        h = w.a.handlers["src"]
        if h.state.name != "BUSY" or h.states.packets_ready:
            return
        req = w.put_request_obj(None)
        req.source_file = Path("src/other.bin")
        req.dest_file = Path("dst/other_out.bin")
        w.probe("premature_put_of_another_file")
        w.call(w.a, "src", "put", arg=req, tags=("PREMATURE",))

    def on_end(self, w):
        pass


# ---------------------------------------------------------------------------------------------


def prelude(w, same_request: bool = False, idle_ms: int = 0, mode=None, closure=None, msgs=None,
            cancel_after: int | None = None, other_content: bool = False, narrow_dest_id: bool = False,
            lose_first_eof: bool = False) -> bool:
    """An earlier transaction on the same handler objects and the same filestore over a perfect link (not judged:
    monitors are attached afterwards). same_request: the very request of the run is executed (same path, size
    and content), otherwise the file goes to dst/prev.bin. other_content: a different file of the SAME size is sent
    (src/prev.bin). cancel_after: the sending user cancels it after that many handler calls (it still runs to its
    end). narrow_dest_id: the request names the destination with a 1-byte id (smaller PDU headers than the run's)."""
    c = w.cfg
    if c.metadata_only:
        return False
    req = w.put_request_obj(msgs)
    if not same_request:
        req.dest_file = Path("dst/prev.bin")
    if other_content:
        w.vfs_a.h_put("src/prev.bin", bytes((b ^ 0x5A) for b in w.src_bytes))
        req.source_file = Path("src/prev.bin")
    if mode is not None:
        req.trans_mode = mode
    if closure is not None:
        req.closure_requested = closure
    if narrow_dest_id and c.idw_b > 1:
        req.destination_id = UnsignedByteField(w.b.eid.value, 1)
    # two thirds of the earlier requests carry fault handler overrides (Metadata options of THAT transaction): neither
    # entity's own fault handler table may change because of them
    osel = w.tape.choose(3, "prelude fault handler overrides")
    if osel:
        from spacepackets.cfdp import ConditionCode
        from spacepackets.cfdp.defs import FaultHandlerCode
        from spacepackets.cfdp.tlv import FaultHandlerOverrideTlv

        sets = [
            [(ConditionCode.POSITIVE_ACK_LIMIT_REACHED, FaultHandlerCode.IGNORE_ERROR), (ConditionCode.NAK_LIMIT_REACHED, FaultHandlerCode.IGNORE_ERROR),
             (ConditionCode.CHECK_LIMIT_REACHED, FaultHandlerCode.IGNORE_ERROR)],
            [(ConditionCode.CHECK_LIMIT_REACHED, FaultHandlerCode.ABANDON_TRANSACTION), (ConditionCode.FILE_CHECKSUM_FAILURE, FaultHandlerCode.NOTICE_OF_CANCELLATION),
             (ConditionCode.FILESTORE_REJECTION, FaultHandlerCode.IGNORE_ERROR), (ConditionCode.POSITIVE_ACK_LIMIT_REACHED, FaultHandlerCode.ABANDON_TRANSACTION)],
        ][osel - 1]
        req.fault_handler_overrides = [FaultHandlerOverrideTlv(cc, hc) for cc, hc in sets]
        w.probe("prelude_with_fault_handler_overrides")
    saved = (w.link.enabled, w.link.hook, dict(w.link.partition), w.pacing, w.fs_fault)
    w.link.enabled, w.link.hook, w.pacing, w.fs_fault = set(), None, "regular", None
    if lose_first_eof:
        # the one exception to the perfect link: the first EOF PDU of the earlier transaction is lost, so that its
        # positive ACK procedure had to re-send it once
        lost = {"n": 0}

        def eof_hook(src_ent, dst, em, key):
            if key == "a>b EOF" and lost["n"] == 0:
                lost["n"] = 1
                return ("drop",)
            return None

        w.link.hook = eof_hook
    w.call(w.a, "src", "put", arg=req)
    w.start_polls()
    if cancel_after is not None:
        c0 = w.calls_n
        while w.calls_n - c0 < cancel_after and w.step():
            pass
        h = w.a.handlers["src"]
        if h.transaction_id is not None and not h.num_packets_ready:
            w.call(w.a, "src", "cancel", arg=h.transaction_id)
            w.probe("prelude_cancelled")
    w.run()
    ok = w.all_idle()
    if not ok:
        # e.g. a cancel request issued after the Finished PDU was accepted leaves the sender waiting for a second
        # Finished PDU that a receiver which already closed the transaction never sends (one of the waits the
        # documentation lists as unimplemented): the user gives up on the old transaction through the public reset()
        for ent in (w.a, w.b):
            for hk in ("src", "dst"):
                h = ent.handlers[hk]
                if h.state.name != "IDLE":
                    h.reset()
                    while h.get_next_packet() is not None:
                        pass
                    ent.drained[hk] = True
                    ent.note_state(hk, type("S", (), {"busy": False, "tid": None})())
                    w.probe("prelude_reset")
    w.heap.clear()
    w.pending = 0
    w.polls_stopped = True
    w.link.enabled, w.link.hook, part, w.pacing, w.fs_fault = saved
    w.link.last_fault_t = None
    if idle_ms:
        w.clock.now_ms += idle_ms
    w.probe("prelude_transaction")
    return ok


def perturb_irrelevant_config(w, t) -> None:
    """Swarm dimension: configuration that must not matter for the transfer a -> b is varied per run. The
    receiver's MIB entry for the sender carries other SENDING defaults (checksum type, mode, closure, segment
    length: b never sends), and the sender's fault handler table carries other codes for conditions only a
    receiver declares. Draws a fixed number of tape entries."""
    from spacepackets.cfdp import ChecksumType, ConditionCode
    from spacepackets.cfdp.defs import FaultHandlerCode

    sel = t.choose(4, "perturb receiver mib")
    ck = [ChecksumType.CRC_32, ChecksumType.CRC_32C, ChecksumType.MODULAR, ChecksumType.NULL_CHECKSUM][t.choose(4, "receiver mib crc type")]
    if sel in (1, 3):
        w.b.rcfg.crc_type = ck
        w.b.rcfg.closure_requested = not w.b.rcfg.closure_requested
        w.b.rcfg.max_file_segment_len = 3
        w.probe("perturbed_receiver_mib")
    cond = [ConditionCode.FILE_CHECKSUM_FAILURE, ConditionCode.FILE_SIZE_ERROR, ConditionCode.NAK_LIMIT_REACHED, ConditionCode.FILESTORE_REJECTION][
        t.choose(4, "sender table condition")]
    code = [FaultHandlerCode.NOTICE_OF_CANCELLATION, FaultHandlerCode.ABANDON_TRANSACTION, FaultHandlerCode.IGNORE_ERROR][t.choose(3, "sender table code")]
    if sel in (2, 3):
        w.a.fh.set_handler(cond, code)
        w.probe("perturbed_sender_fault_table")


def source_store_hiccups(w, t) -> dict:
    """Storage fault at the sending entity: the n-th read_data call of the run (and the j following ones) raises, as a
    transient EACCES / EIO or a file that is briefly moved away would; the user catches the exception that comes out of
    state_machine and keeps calling. Returns the counter dict (fired = number of raised errors)."""
    st = {"n": t.choose(12, "read fault at nth read"), "left": 1 + t.choose(3, "read fault repeats"), "fired": 0}
    kind = t.choose(3, "read fault kind")

    def decide(who, op, path, *extra):
        if who != "a" or op != "read_data":
            return None
        if st["n"] > 0:
            st["n"] -= 1
            return None
        if st["left"] <= 0:
            return None
        st["left"] -= 1
        st["fired"] += 1
        w.link.fired["src_read_error"] = w.link.fired.get("src_read_error", 0) + 1
        return [PermissionError, FileNotFoundError, OSError][kind](str(path))

    w.fs_fault_x = decide
    return st


def ticked_pacing(w, t, intervals=None) -> None:
    """Both entities run the usual main loop `for pdu in arrived: state_machine(pdu) / else state_machine(); sleep(P)`
    with the same period P and a phase offset. With P at or above a timer interval the awaited PDU is regularly handed
    over in the very call that also finds the timer expired (timer / PDU arrival race); the answer to everything a
    handler sends still arrives within one period, so no expiry is caused by the pacing alone."""
    c = w.cfg
    iv = sorted({int(x * 1000) for x in (intervals or (c.ack_s, c.nak_s)) if x < 1000})
    base = iv[t.choose(len(iv), "tick base interval")]
    p = [base + 20, int(base * 1.6), max(int(base * 0.6), 300), 2 * base + 20][t.choose(4, "tick period")]
    w.pacing = "ticked"
    w.tick_ms = p
    # the second loop runs after the first one has finished what it does in one go (one PDU per millisecond) and the
    # PDUs have crossed the link, and early enough for its answers to be back before the first loop's next tick
    lo = c.lat_ms + 33 + min(c.size // max(c.eff_seg, 1), 60)
    hi = max(p - c.lat_ms - 25, lo + 1)
    w.tick_phase_ms = lo + [0, (hi - lo) // 3, (hi - lo) // 2, hi - lo][t.choose(4, "tick phase")]


def faultfree(t, attach=None, force=None) -> Ctx:
    """C02 population: perfect link, plain shell, timers far away, tape-decided pacing."""
    f = {"shell": "plain", "ack_s": BIG, "nak_s": BIG, "check_s_send": BIG, "check_s_recv": BIG}
    if force:
        f.update(force)
    cfg = Cfg.draw(t, f)
    w = World(t, cfg)
    ctx = Ctx(w, "faultfree")
    w.pacing = "random" if t.choose(4, "pacing") != 3 else "regular"
    w.max_events = 4000 + 8 * (cfg.size // max(cfg.eff_seg, 1))
    w.max_t = 10_000_000
    # a quarter of the runs: the handlers already completed a transfer (any mode / closure), followed by idle time
    # that may exceed every timer interval (the clock is virtual)
    perturb_irrelevant_config(w, t)
    if t.choose(3, "short receiver check interval") == 2:
        # on an in-order link the receiver never starts its check timer, so its interval may be short; the sender's
        # stays far away (the two are separate settings of the check timer provider)
        cfg.check_s_recv = 0.003  # shorter than any round trip
    if t.choose(4, "event-driven caller") == 3:
        # "any pacing of state-machine calls relative to PDU delivery": a caller that runs the state machines only
        # while they have something to do and when a PDU arrives. No call can then fall between the expiry of the
        # sender's check timer (unacknowledged mode with closure) and the arrival of the Finished PDU, so that timer
        # may be shorter than the round trip: the Finished PDU arrives in the very call that would notice the expiry
        w.pacing = "event"
        cfg.lat_ms = [200, 700][t.choose(2, "long latency")]
        cfg.check_s_send = [0.02, 0.05, 0.3][t.choose(3, "short sender check interval")]  # > the follow-up call, < round trip
    if t.choose(4, "prelude") == 3:
        same = bool(t.choose(2, "prelude same request"))
        prelude(w, same_request=same, idle_ms=[0, 5000, 200_000_000][t.choose(3, "prelude idle")],
                mode=[None, ACK, UNACK][t.choose(3, "prelude mode")], closure=[None, True, False][t.choose(3, "prelude closure")],
                msgs=build_msgs(t.weighted([3, 1, 2, 1, 1, 1, 1], "prelude msgs"))[0],
                cancel_after=[None, None, None, 2 + t.choose(12, "prelude cancel after")][t.choose(4, "prelude cancelled")],
                other_content=(not same) and t.choose(2, "prelude other content") == 1,
                narrow_dest_id=t.choose(3, "prelude narrow dest id") == 2)
        w.max_events += w.nev
        w.max_t += w.clock.t
    _start(ctx, attach)
    ctx.reason = w.run()
    ctx.nontrivial = w.pacing in ("random", "event")
    return ctx


# ---------------------------------------------------------------------------------------------

FAULT_SETS = [("drop",), ("dup",), ("delay",), ("drop", "dup"), ("drop", "delay"), ("dup", "delay"), ("drop", "dup", "delay")]


def bounded_faults(t, attach=None, force=None) -> Ctx:
    """C03 population: acknowledged mode, at most K link faults (drop / duplicate / delay, which
    reorders), every expiration limit > K, history shell; afterwards the link is quiet and polls
    continue so that timers keep expiring."""
    K = t.weighted([1, 5, 5, 2, 1], "K")
    f = {"mode": ACK, "shell": "history", "metadata_only": False, "poll_ms": [100, 50, 200, 250][t.choose(4, "poll")]}
    f["ack_lim"] = K + 1 + t.choose(3, "ack_lim+")
    f["nak_lim"] = K + 1 + t.choose(3, "nak_lim+")
    if force:
        f.update(force)
    cfg = Cfg.draw(t, f)
    if cfg.size // max(cfg.eff_seg, 1) > 40:  # keep runs short: many segments add nothing here
        cfg.size_sel = 6
        cfg.finish()
    w = World(t, cfg)
    ctx = Ctx(w, "bounded_faults")
    w.link.enabled = set(FAULT_SETS[t.choose(len(FAULT_SETS), "fault set")])
    w.link.rate = [(1, 5), (1, 3), (1, 10), (1, 2)][t.choose(4, "fault rate")]
    w.link.budget = K
    # timer / PDU arrival races: in a quarter of the runs every poll interval is drawn from the tape, in another
    # quarter both entities run a main loop with a period around the timer intervals (ticked pacing)
    pv = t.choose(4, "pacing")
    if pv == 2:
        w.pacing = "random"
    elif pv == 3:
        ticked_pacing(w, t)
    ctx.info["K"] = K
    from spacepackets.cfdp.pdu import TransactionStatus

    w.closed_status = [TransactionStatus.TERMINATED, TransactionStatus.UNDEFINED, TransactionStatus.UNRECOGNIZED][
        t.weighted([2, 1, 1], "closed transaction status")]
    perturb_irrelevant_config(w, t)
    # a fifth of the runs: the handlers already completed (or cancelled) a transfer and were idle for a while
    if t.choose(5, "prelude") == 4:
        saved_budget = w.link.budget
        same = bool(t.choose(2, "prelude same request"))
        prelude(w, same_request=same, idle_ms=[0, 1500, 30000][t.choose(3, "prelude idle")],
                mode=[None, ACK, UNACK][t.choose(3, "prelude mode")], closure=[None, True, False][t.choose(3, "prelude closure")],
                cancel_after=[None, None, 2 + t.choose(12, "prelude cancel after")][t.choose(3, "prelude cancelled")],
                other_content=(not same) and t.choose(2, "prelude other content") == 1,
                narrow_dest_id=t.choose(3, "prelude narrow dest id") == 2,
                lose_first_eof=t.choose(3, "prelude loses first EOF") == 2)
        w.link.budget = saved_budget
    longest = max(cfg.ack_s, cfg.nak_s)
    if w.pacing == "ticked":
        longest += 2 * w.tick_ms / 1000  # an expiry is noticed, and answered, only at the next tick
    bound_ms = int((2 * cfg.ack_lim + cfg.nak_lim + 6) * longest * 1000) + max(w.link.delays_ms) + 1000
    ctx.info["bound_ms"] = bound_ms
    w.max_events = 20000
    w.max_t = 3_000_000
    _start(ctx, attach)

    t_start = w.clock.t

    def until(w):
        last = w.link.last_fault_t or t_start
        return w.clock.t > last + bound_ms

    w.max_t += w.clock.t
    ctx.reason = w.run(until=until)
    fired = sum(w.link.fired.values())
    ctx.info["fired"] = fired
    ctx.nontrivial = K >= 1 and fired == K
    return ctx


# ---------------------------------------------------------------------------------------------


def chaos(t, attach=None, force=None, allow_extra=True, pre=None) -> Ctx:
    """C01 population: arbitrarily many faults of every kind; nothing is demanded about
    completion."""
    f = {"shell": "history", "poll_ms": [100, 50, 200, 250][t.choose(4, "poll")]}
    if force:
        f.update(force)
    cfg = Cfg.draw(t, f)
    weak_ck = int(cfg.ck) in (0, 15)
    if weak_ck and cfg.mode != ACK:
        cfg.mode = ACK
        cfg.finish()
    if cfg.size // max(cfg.eff_seg, 1) > 60:
        cfg.size_sel = 6
        cfg.finish()
    w = World(t, cfg)
    ctx = Ctx(w, "chaos_weakck" if weak_ck else "chaos")
    # a fifth of the runs: the same file was already delivered once to the same path through the same handler and
    # filestore objects (whatever they remember of it must not vouch for the second delivery)
    perturb_irrelevant_config(w, t)
    if t.choose(5, "prelude") == 4:
        prelude(w, same_request=True, idle_ms=[0, 1500, 9000][t.choose(3, "prelude idle")],
                cancel_after=[None, None, 2 + t.choose(12, "prelude cancel after")][t.choose(3, "prelude cancelled")])
    kinds = {"drop", "dup", "delay"}
    mask = t.choose(8, "kind mask")
    en = {k for i, k in enumerate(("drop", "dup", "delay")) if not mask & (1 << i)} or kinds
    if not weak_ck and t.choose(2, "corrupt on"):
        en.add("corrupt")
    w.link.enabled = en
    w.link.rate = [(1, 6), (1, 3), (1, 12), (1, 2), (2, 3)][t.choose(5, "fault rate")]
    w.link.budget = None
    extras = {"fs_reject": 0, "restart": 0, "clock_jump": 0, "stall": 0, "partition": 0}
    ctx.info["extras"] = extras
    if allow_extra and not weak_ck:
        # destination write / create / truncate rejections
        fsmode = t.weighted([5, 2, 1, 1], "fs faults")
        if fsmode:
            num = {1: 1, 2: 1, 3: 1}[fsmode]
            den = {1: 8, 2: 3, 3: 1}[fsmode]
            ops = ("write_data",) if fsmode == 1 else ("write_data", "create_file", "truncate_file")

            def decide(op, path, *extra, _t=t):
                if op in ops and _t.chance(num, den, f"fs reject {op}"):
                    extras["fs_reject"] += 1
                    # only the exception types the interface documents for the operation / the
                    # handler is written for: write_data may raise either, create/truncate are
                    # rejected with PermissionError (read-only or full store)
                    if op == "write_data" and _t.choose(2, "exc kind") == 1:
                        return FileNotFoundError(str(path))
                    return PermissionError(str(path))
                return None

            w.fs_fault = decide
        n_ops = t.weighted([4, 3, 2, 1], "n extra ops")
        for _ in range(n_ops):
            kind = ("restart", "clock_jump", "stall", "partition")[t.choose(4, "extra kind")]
            at = [20, 60, 150, 400, 900, 1600, 2800, 5000][t.choose(8, "extra at")]
            dur = [200, 800, 2500, 6000][t.choose(4, "extra dur")]
            who = t.choose(2, "extra who")
            w.push(w.clock.t + at, ("fn", _mk_extra(kind, who, dur, extras)))
    elif allow_extra:
        n_ops = t.weighted([4, 3, 2], "n extra ops weak")
        for _ in range(n_ops):
            kind = ("stall", "partition")[t.choose(2, "extra kind")]
            at = [20, 60, 150, 400, 900, 1600, 2800, 5000][t.choose(8, "extra at")]
            dur = [200, 800, 2500, 6000][t.choose(4, "extra dur")]
            who = t.choose(2, "extra who")
            w.push(w.clock.t + at, ("fn", _mk_extra(kind, who, dur, extras)))
    w.max_events = 2500
    w.max_t = 90_000
    pv = t.choose(6, "pacing")
    if pv == 2:
        w.pacing = "random"
    elif pv == 3:
        ticked_pacing(w, t, intervals=[x for x in (cfg.ack_s, cfg.nak_s, cfg.check_s_recv, cfg.check_s_send) if x < 50])
    elif pv == 4:
        w.pacing = "lazy"
        w.lazy_ms = [700, 1500, 4000][t.choose(3, "lazy poll period")]
    _start(ctx, attach)
    ctx.reason = w.run()
    ctx.info["fired"] = sum(w.link.fired.values()) + sum(extras.values())
    ctx.nontrivial = ctx.info["fired"] > 0
    return ctx


def _mk_extra(kind, who, dur, extras):
    def fn(w):
        ent = w.a if who == 0 else w.b
        extras[kind] += 1
        w.log.append(f"  EXTRA {kind} who={ent.name} dur={dur}")
        if kind == "restart":
            # only volatile state is lost: a fresh handler; the file and the user's history survive
            # A transaction whose completion the user could already observe (public step past the
            # notice of completion) is recorded as closed in the user's durable history.
            b = w.b
            old = b.handlers["dst"]
            if old.step.name in ("SENDING_FINISHED_PDU", "WAITING_FOR_FINISHED_ACK") and b.live_tid["dst"] is not None:
                b.closed["dst"].add(b.live_tid["dst"])
            b.live_tid["dst"] = None
            b.handlers["dst"] = DestHandler(b.lcfg, b.user, b.table, b.timers)
        elif kind == "clock_jump":
            step = dur if w.tape.choose(2, "jump dir") == 0 else -dur
            w.clock.offsets[ent.name] = w.clock.offsets.get(ent.name, 0) + step
        elif kind == "stall":
            ent.stalled = True

            def unstall(w2, ent=ent):
                ent.stalled = False
                box, ent.inbox = ent.inbox, []
                for raw in box:
                    w2.deliver(ent, raw)

            w.push(w.clock.t + dur, ("fn", unstall))
        elif kind == "partition":
            w.link.partition[ent.name] = True

            def heal(w2, ent=ent):
                w2.link.partition[ent.name] = False

            w.push(w.clock.t + dur, ("fn", heal))

    return fn


def silence(t, attach=None, force=None) -> Ctx:
    """Acknowledged transfer during which one direction of the link (or both) goes silent for good after a
    tape-chosen handler call; nothing is demanded about the outcome (limits fault, cancel exchanges, abandonment)."""
    f = {"mode": ACK, "shell": "history", "metadata_only": False, "poll_ms": [100, 50, 200][t.choose(3, "poll")]}
    if force:
        f.update(force)
    cfg = Cfg.draw(t, f)
    if cfg.size // max(cfg.eff_seg, 1) > 30:
        cfg.size_sel = 6
        cfg.finish()
    w = World(t, cfg)
    ctx = Ctx(w, "silence")
    perturb_irrelevant_config(w, t)
    cut_after = 1 + t.choose(30, "cut after call")
    dirs = [("a",), ("b",), ("a", "b")][t.choose(3, "cut dirs")]
    if t.choose(2, "pre faults"):
        w.link.enabled = {"drop"}
        w.link.rate = (1, 4)
        w.link.budget = 1 + t.choose(2, "pre fault budget")
    state = {"done": False}

    class Cut:
        def on_call(self, w2, rec):
            if not state["done"] and rec.seq >= cut_after:
                state["done"] = True
                for d in dirs:
                    w2.link.partition[d] = True
                w2.log.append(f"  SILENCE {'+'.join(dirs)}")

    w.monitors.append(Cut())
    unit = max(cfg.ack_s, cfg.nak_s)
    bound = int((2 * cfg.ack_lim + cfg.nak_lim + 4) * unit * 1000) + 3000
    w.max_events = 30000
    w.max_t = 10_000_000
    _start(ctx, attach)
    ctx.reason = w.run(until=lambda w2: w2.clock.t > bound)
    ctx.nontrivial = state["done"]
    ctx.info["extras"] = {"silence": 1 if state["done"] else 0}
    return ctx


# ---------------------------------------------------------------------------------------------


class CancelTrigger:
    """Issues user cancel requests after the n-th handler call of the run."""

    def __init__(self, ctx, plan):
        self.ctx = ctx
        self.plan = plan  # list of (after_call_no, side, wrong_id)
        self.done = []
        self.prev_tid = None  # id of a transaction the handlers finished earlier (used for wrong-id cancels)
        self.base = None

    def on_call(self, w, rec):
        if self.base is None:
            self.base = rec.seq - 1  # calls of a prelude transaction do not count
        for p in self.plan:
            if p[0] == rec.seq - self.base:
                w.push(w.clock.t, ("fn", self._mk(p)))

    def _mk(self, p):
        def fn(w):
            _, side, wrong = p
            ent, hk = (w.a, "src") if side == 0 else (w.b, "dst")
            h = ent.handlers[hk]
            live = h.transaction_id
            if (wrong or live is None) and self.prev_tid is not None and (live is None or self.prev_tid != live):
                tid = self.prev_tid
            elif wrong or live is None:
                tid = TransactionId(UnsignedByteField(1, w.cfg.idw), UnsignedByteField(4242 % (1 << (8 * w.cfg.seqw)) , w.cfg.seqw))
                if live is not None and tid == live:
                    tid = TransactionId(UnsignedByteField(7, w.cfg.idw), live.seq_num)
            else:
                tid = live
            rec = w.call(ent, hk, "cancel", arg=tid, tags=("WRONGID",) if wrong else ())
            self.done.append((rec, side, wrong, tid_t(tid)))
            for m in w.monitors:
                f = getattr(m, "on_cancel", None)
                if f:
                    f(w, rec, side, wrong, tid_t(tid))

        return fn

    def on_end(self, w):
        pass


def cancel(t, attach=None, force=None) -> Ctx:
    """C12 population: transfers (fault-free link or a few link faults) with cancel requests
    injected between any two calls of either handler."""
    f = {"shell": "history", "poll_ms": [100, 50, 200, 250][t.choose(4, "poll")]}
    if force:
        f.update(force)
    cfg = Cfg.draw(t, f)
    if cfg.size // max(cfg.eff_seg, 1) > 40:
        cfg.size_sel = 6
        cfg.finish()
    w = World(t, cfg)
    ctx = Ctx(w, "cancel")
    if t.choose(3, "link faults") == 2:
        w.link.enabled = {"drop", "dup", "delay"}
        w.link.rate = (1, 8)
        w.link.budget = 2
    nseg = cfg.size // max(cfg.eff_seg, 1)
    horizon = 12 + 2 * nseg
    plan = []
    n_c = t.weighted([1, 6, 2], "n cancels")
    right_used = {0: False, 1: False}
    for _ in range(n_c):
        after = 1 + t.choose(horizon, "cancel after call")
        side = t.choose(2, "cancel side")
        wrong = t.choose(4, "wrong id") == 3
        if not wrong:
            if right_used[side]:
                wrong = True
            right_used[side] = True
        plan.append((after, side, wrong))
    trig = CancelTrigger(ctx, plan)
    ctx.info["trigger"] = trig
    if t.choose(3, "pacing") == 2:
        w.pacing = "random"
    w.max_events = 6000
    w.max_t = 200_000
    # in a quarter of the runs the handlers have already completed a transaction (not judged); wrong-id cancel
    # requests then name that finished transaction
    perturb_irrelevant_config(w, t)
    if t.choose(4, "prelude transaction") == 3 and not cfg.metadata_only:
        saved = (w.link.enabled, w.link.rate, w.link.budget)
        # half of the earlier transactions were cancelled by the sending user themselves
        ok = prelude(w, cancel_after=[None, 2 + t.choose(12, "prelude cancel after")][t.choose(2, "prelude cancelled")])
        w.link.enabled, w.link.rate, w.link.budget = saved
        prev = w.a.seqp.issued[-1] if w.a.seqp.issued else None
        if prev is not None and ok:
            trig.prev_tid = TransactionId(UnsignedByteField(1, cfg.idw), UnsignedByteField(prev, cfg.seqw))
    w.monitors.append(trig)
    _start(ctx, attach)
    ctx.reason = w.run()
    ctx.nontrivial = any(not d[2] and d[0].ret for d in trig.done)
    return ctx
