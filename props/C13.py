"""C13 - unacknowledged transfers tolerate EOF overtaking file data up to the check limit."""
from __future__ import annotations

from cfdpsim.runner import from_world
from cfdpsim.world import UNACK, CK_TYPES, Cfg, World
from cfdpsim.models import IntervalSet
from props.monitors import Monitor
from pathlib import Path

from props.pops import Ctx, _start, perturb_irrelevant_config

RULE = (
    "unacknowledged transfers with CRC checksums; the link holds back a tape-chosen non-empty subset of the File Data "
    "PDUs so that the EOF overtakes them and releases each at a tape-chosen time relative to the check-timer expiries "
    "(before the first, between k and k+1, after the last, never); check limits 1..4, closure on/off; in the sender "
    "scenario the Finished PDU is withheld / delayed instead; RetryModel (check timers) judged at every call on the "
    "integer-millisecond virtual clock; non-trivial = at least one check-timer expiry observed"
)
ASSUMPTIONS = [
    "completion is observed at the poll that sees an expiry (the handler re-verifies only then), identical file judged by "
    "an independent read of the destination file after that call",
    "sender and receiver are judged in separate scenarios (long timer on the side not under test)",
]
BUDGET = {"quick": 25, "thorough": 600}
CHECK_LIMIT = 10
BIG = 100000.0


class RecvCheckModel(Monitor):
    def __init__(self, w):
        self.ms = int(w.cfg.check_s_recv * 1000)
        self.L = w.cfg.check_lim
        self.deadline = None
        self.count = 0
        self.expiries = 0
        self.done = False
        self.outcome = None
        self.delivered = IntervalSet()  # file data handed to the receiver so far (whatever it did with it)
        self.size = len(w.src_bytes)

    def on_call(self, w, rec) -> None:
        if rec.ent != "b" or rec.hk != "dst" or self.done:
            return
        if rec.inb_kind == "FD" and rec.exc is None:
            self.delivered.add(rec.inb_info[1], rec.inb_info[1] + rec.inb_info[2])
        t = rec.t
        fin_inds = [i for i in rec.inds if i[0] == "finished"]
        lim = [f for f in rec.faults if f[2] == CHECK_LIMIT]
        if self.deadline is None:
            if rec.inb_kind == "EOF" and rec.pre.step == "RECEIVING_FILE_DATA" and rec.exc is None:
                same = w.dst_bytes() == w.src_bytes
                if rec.post.step == "RECV_FILE_DATA_WITH_CHECK_LIMIT_HANDLING":
                    if same:
                        w.violate("C13.complete_at_eof", "all data present but check-limit handling started", "")
                    self.deadline = t + self.ms
                    if fin_inds:
                        w.violate("C13.no_completion_at_eof", "finished indication at EOF time", "")
                else:
                    if not same:
                        w.violate("C13.no_completion_at_eof", f"EOF with data missing left step {rec.post.step}", "")
                    self.done = True
                    self.outcome = "complete_at_eof"
            return
        if rec.pre.step != "RECV_FILE_DATA_WITH_CHECK_LIMIT_HANDLING" or rec.op != "sm":
            return
        if rec.exc is not None:
            return
        if rec.inb_kind == "EOF" and rec.inb_info[1] == 0:
            # a further copy of the EOF (No Error) PDU while the check procedure runs (duplication is outside the property's
            # quantifier; it is injected so that nothing ELSE goes wrong around it): it must not end the transaction by
            # itself while data is outstanding; cfdp-py restarts the check procedure on it, which the model follows
            w.probe("C13.duplicate_eof_during_check_procedure")
            same = w.dst_bytes() == w.src_bytes
            if not same and (fin_inds or lim or rec.post.step != "RECV_FILE_DATA_WITH_CHECK_LIMIT_HANDLING"):
                w.violate("C13.early", f"duplicate EOF ends the transaction with data outstanding: fin={[i[2] for i in fin_inds]} fault={bool(lim)} post={rec.post.step}",
                          f"t={t} deadline={self.deadline}")
                self.done = True
                return
            if rec.post.step == "RECV_FILE_DATA_WITH_CHECK_LIMIT_HANDLING":
                self.deadline = t + self.ms
                self.count = 0
                return
            if same and fin_inds and fin_inds[0][2][:2] == (0, 0) and not lim:
                # every byte is in: the copy of the EOF PDU lets the receiver verify and complete without waiting for the timer
                w.probe("C13.success_at_duplicate_eof")
                self.done = True
                self.outcome = "success"
                return
        if t < self.deadline:
            if fin_inds or lim or rec.post.step != "RECV_FILE_DATA_WITH_CHECK_LIMIT_HANDLING":
                w.violate("C13.early", f"count={self.count} L={self.L} fin={bool(fin_inds)} fault={bool(lim)}", f"t={t} deadline={self.deadline}")
            return
        self.expiries += 1
        w.probe("C13.recv_expiry")
        k = self.count + 1
        same = w.dst_bytes() == w.src_bytes
        all_in = self.delivered.contains_range(0, self.size)
        if all_in and not same and not (fin_inds or lim):
            pass  # judged below: data that was handed over must be in the file
        if all_in and not same:
            # every byte was handed to the handler before (or in) this call, while it was still receiving
            w.violate("C13.delivered_data_not_stored", f"k={k} L={self.L} in={rec.inb_kind}", f"file differs although all {self.size} bytes were delivered")
            self.done = True
            return
        if same:
            ok = fin_inds and fin_inds[0][2][:2] == (0, 0) and not lim
            if not ok:
                w.violate("C13.complete_when_data_arrived", f"k={k} L={self.L} inds={[i[2] for i in fin_inds]} fault={bool(lim)}", "")
            w.probe(f"C13.success_at_expiry_{k}_of_{self.L}")
            self.done = True
            self.outcome = "success"
            return
        if k == self.L:
            ok = lim and lim[0][0] == "cancel" and fin_inds and fin_inds[0][2][0] == CHECK_LIMIT and fin_inds[0][2][1] == 1
            if not ok:
                w.violate("C13.check_limit_fault", f"k={k} L={self.L} faults={[(f[0], f[2]) for f in rec.faults]} inds={[i[2] for i in fin_inds]}", "")
            w.probe("C13.limit_reached")
            self.done = True
            self.outcome = "limit"
            return
        if lim or fin_inds:
            w.violate("C13.fault_before_limit", f"k={k} L={self.L} fault={bool(lim)} fin={bool(fin_inds)}", "")
        self.count += 1
        self.deadline = t + self.ms


class SendCheckModel(Monitor):
    def __init__(self, w):
        self.ms = int(w.cfg.check_s_send * 1000)
        self.deadline = None
        self.expiries = 0
        self.done = False

    def on_call(self, w, rec) -> None:
        if rec.ent != "a" or rec.hk != "src" or self.done:
            return
        t = rec.t
        eofs = [e for e in rec.emitted if e.kind == "EOF"]
        if self.deadline is None:
            # the check timer runs from the moment the sender starts to wait for the Finished PDU (after its EOF; a
            # metadata-only transaction has no EOF and waits right after the Metadata PDU)
            if rec.post.step == "WAITING_FOR_FINISHED" and rec.pre.step != "WAITING_FOR_FINISHED" and not (eofs and eofs[0].info[1] != 0):
                self.deadline = t + self.ms
            return
        lim = [f for f in rec.faults if f[2] == CHECK_LIMIT]
        if rec.inb_kind == "FIN" and rec.exc is not None and not rec.exc.is_lib and rec.pre.step == "WAITING_FOR_FINISHED":
            w.violate("C13.sender_finished_pdu_lost_to_timer", f"{rec.exc!r} expired={t >= self.deadline}", rec.exc.msg)
            self.done = True
            return
        if rec.inb_kind == "FIN" and rec.exc is None:
            self.done = True
            w.probe("C13.sender_got_finished")
            if t >= self.deadline:
                w.probe("C13.sender_got_finished_at_expired_timer")
            # the awaited Finished PDU ends the wait, also when it is handed over in the very call that finds the check
            # timer expired: no fault is due for a PDU that has arrived
            if lim or eofs or rec.post.state != "IDLE":
                w.violate("C13.sender_finished_pdu_lost_to_timer", f"faults={[(f[0], f[2]) for f in rec.faults]} eofs={[e.info[1] for e in eofs]} "
                          f"post={rec.post.step} expired={t >= self.deadline}", "")
            return
        if rec.op != "sm" or rec.pre.step != "WAITING_FOR_FINISHED":
            return
        if t < self.deadline:
            if eofs or lim:
                w.violate("C13.sender_early", "", f"t={t} deadline={self.deadline}")
            return
        self.expiries += 1
        w.probe("C13.sender_expiry")
        ok = lim and lim[0][0] == "cancel" and eofs and eofs[0].info[1] == CHECK_LIMIT and rec.post.state == "IDLE"
        if not ok:
            w.violate("C13.sender_check_limit", f"faults={[(f[0], f[2]) for f in rec.faults]} eofs={[e.info[1] for e in eofs]} post={rec.post.step}", "")
        self.done = True


def run_one(t):
    sender_case = t.weighted([3, 1], "scenario") == 1
    f = {"mode": UNACK, "shell": "history", "metadata_only": False, "ck": CK_TYPES[t.choose(2, "crc type")],
         "poll_ms": [100, 50, 200, 250][t.choose(4, "poll")], "size_sel": [0, 6, 7, 5][t.choose(4, "size")]}
    if sender_case:
        f.update({"closure": True, "check_s_recv": BIG, "metadata_only": t.choose(4, "metadata only") == 3})
    else:
        f.update({"check_s_send": BIG})
    cfg = Cfg.draw(t, f)
    cfg.ind_b |= 8  # the oracle observes completion through the Transaction-Finished indication
    cfg.ind_a |= 8
    w = World(t, cfg)
    ctx = Ctx(w, "sender_check" if sender_case else "eof_overtakes")
    try:
        C = int((cfg.check_s_send if sender_case else cfg.check_s_recv) * 1000)
        L = cfg.check_lim
        if sender_case:
            mon = SendCheckModel(w)
            slot = t.weighted([2, 2, 2], "finished slot")  # on time / late / never

            def hook(src_ent, dst, em, key):
                if key == "b>a FIN":
                    if slot == 0:
                        return ("delay", [0, C // 3, C - 60][t.choose(3, "fin delay")])
                    if slot == 1:
                        return ("delay", C + [10, 300, 2000][t.choose(3, "fin late")])
                    return ("drop",)
                return None
        else:
            mon = RecvCheckModel(w)
            ntiles = max((cfg.size + cfg.eff_seg - 1) // cfg.eff_seg, 1)
            held = set()
            for i in range(ntiles):
                if t.chance(1, 3, f"hold tile {i}"):
                    held.add(i)
            if not held:
                held.add(t.choose(ntiles, "hold one"))
            slots = {}
            for i in sorted(held):
                # slot 0: before the first expiry, k: between expiry k and k+1, L: after the last, L+1: never
                slots[i] = t.choose(L + 2, f"slot tile {i}")
            ctx.info["held"] = slots

            dup_eof = t.choose(4, "duplicate eof") == 3
            dup_after = [C // 3, C + 40, 2 * C + 40][t.choose(3, "duplicate eof after")]

            def hook(src_ent, dst, em, key):
                if key == "a>b EOF" and dup_eof:
                    return ("dup", dup_after)
                if key == "a>b FD":
                    i = em.info[1] // cfg.eff_seg
                    if i in slots:
                        k = slots[i]
                        if k == L + 1:
                            return ("drop",)
                        frac = [C // 4, C // 2, C - 120][t.choose(3, "slot frac")]
                        return ("delay", k * (C + cfg.poll_ms) + frac)
                return None
        perturb_irrelevant_config(w, t)
        if not sender_case and cfg.size > 0 and t.choose(4, "earlier episode") == 3:
            # the receiver already went through a check-limit episode with this sender (first segment late, completed at
            # the first expiry), then both sides idled for longer than a check interval
            def h0(src_ent, dst, em, key):
                if key == "a>b FD" and em.info[1] == 0:
                    return ("delay", C // 2)
                return None

            w.link.hook = h0
            req = w.put_request_obj(None)
            req.dest_file = Path("dst/prev.bin")
            if t.choose(2, "earlier episode with fault handler overrides") == 1:
                # Metadata options of THAT transaction: the receiver's own table must not change because of them
                from spacepackets.cfdp import ConditionCode as _CC
                from spacepackets.cfdp.defs import FaultHandlerCode as _FH
                from spacepackets.cfdp.tlv import FaultHandlerOverrideTlv

                req.fault_handler_overrides = [FaultHandlerOverrideTlv(_CC.FILE_CHECKSUM_FAILURE, _FH.NOTICE_OF_CANCELLATION),
                                               FaultHandlerOverrideTlv(_CC.CHECK_LIMIT_REACHED, _FH.IGNORE_ERROR)]
            w.call(w.a, "src", "put", arg=req)
            w.start_polls()
            w.run()
            for ent, hk in ((w.a, "src"), (w.b, "dst")):
                hh = ent.handlers[hk]
                if hh.state.name != "IDLE":
                    hh.reset()
                    while hh.get_next_packet() is not None:
                        pass
                    ent.note_state(hk, type("S", (), {"busy": False, "tid": None})())
            w.heap.clear()
            w.pending = 0
            w.polls_stopped = True
            w.clock.now_ms += int(1.5 * C) + 7
            w.probe("C13.earlier_episode")
        w.link.hook = hook
        w.monitors.append(mon)
        # slow, tape-paced sending in a third of the runs: the file data phase may then last longer than a check
        # interval (timers must count from the EOF, not from the start of the transaction)
        pv = t.choose(5, "pacing")
        if pv == 2:
            w.pacing = "random"
        elif pv == 3:
            # timer / PDU arrival races: main loops with a period around the check interval (late File Data / Finished PDUs
            # are then handed over in the very call that also finds the check timer expired) ...
            from props.pops import ticked_pacing

            ticked_pacing(w, t, intervals=(C / 1000,))
        elif pv == 4:
            # ... or a caller that runs the state machines only when a PDU arrives
            w.pacing = "event" if sender_case else "lazy"
            w.lazy_ms = 2 * C + 100
        w.max_events = 20000
        w.max_t = 10_000_000
        _start(ctx, None)
        # an expiry is observed at the next poll
        slack = {"regular": 300, "random": 4 * cfg.poll_ms + 300, "ticked": 2 * w.tick_ms + 300, "lazy": w.lazy_ms + 300, "event": 300}[w.pacing]
        bound = w.clock.t + (L + 3) * (C + slack) + 3000

        def until(w):
            return w.clock.t > bound

        reason = w.run(until=until)
        if not sender_case and mon.deadline is not None and not mon.done:
            w.violate("C13.never_decides", f"L={L} count={mon.count} step={w.b.handlers['dst'].step.name}", f"reason={reason}")
        if not sender_case and mon.outcome == "success" and w.dst_bytes() != w.src_bytes:
            w.violate("C13.success_identical", "", "")
        r = from_world(w, ctx.pop, mon.expiries > 0)
        return r
    finally:
        w.close()
