"""C04 - retry limits are honoured exactly; a silent peer cannot hang a transaction.

RetryModel: the three timer-driven procedures as explicit counters and deadlines on the integer
millisecond virtual clock (Countdown compares integer milliseconds, so there is no boundary
ambiguity: expired <=> now >= start + int(interval * 1000)). The model is advanced by observing the
handler's own calls (a re-armed timer starts at the time of the poll that observed the expiry).
"""
from __future__ import annotations

from cfdpsim.runner import from_world
from cfdpsim.world import ACK, Cfg, World
from props.monitors import Monitor
from props.pops import Ctx, _start

RULE = (
    "acknowledged transfers; at a tape-chosen point (after the n-th call, or at the first emission of EOF / NAK / "
    "Finished / ACK, cutting before or after that PDU) direction a>b, b>a or both go silent, permanently or healing "
    "after a tape-chosen time; in 3 of 7 runs the user of either side additionally issues a cancel request at a "
    "tape-chosen call (the cancel exchange then meets the silent peer); heal "
    "after a tape-chosen time (fractions and multiples of the timer intervals); limits N 1..4 and intervals drawn per "
    "run; default fault handlers; history shell; RetryModel judged at every call; non-trivial = at least one "
    "expiry of a retry procedure was observed; distinct = interleaving signature"
)
ASSUMPTIONS = [
    "'N-th consecutive expiry' = N transmissions in total, limit fault on the N-th expiry (mib.py documentation, the "
    "three timing tests of the suite)",
    "a re-armed timer runs from the poll that observed the expiry (the handler cannot know the deadline passed earlier)",
    "the two waits documented as unimplemented inactivity handling end a run as excused_unimplemented_wait",
    "any accepted File Data PDU, and the Metadata PDU while it is missing, count as progress while the deferred procedure runs "
    "(reset the count); a further copy of the Metadata PDU is ignored",
]
BUDGET = {"quick": 30, "thorough": 900}

POS_ACK_LIMIT = 1
NAK_LIMIT = 7


class Proc:
    __slots__ = ("kind", "deadline", "count", "raw", "cancel_phase", "fuzzy")

    def __init__(self, kind, deadline, raw=None, cancel_phase=False):
        self.kind = kind
        self.deadline = deadline
        self.count = 0
        self.raw = raw
        self.cancel_phase = cancel_phase
        self.fuzzy = False


class RetryMonitor(Monitor):
    def __init__(self, w):
        c = w.cfg
        self.ack_ms = int(c.ack_s * 1000)
        self.nak_ms = int(c.nak_s * 1000)
        self.N_ack = c.ack_lim
        self.N_nak = c.nak_lim
        self.eof = None  # sender procedure
        self.fin = None  # receiver Finished procedure
        self.nak = None  # receiver deferred NAK procedure
        self.expiries = 0
        self.src_cancelled = False
        self.dst_cancelled = False
        self.copies: dict = {}

    # ---- sender
    def _sender(self, w, rec):
        t = rec.t
        eofs = [e for e in rec.emitted if e.kind == "EOF"]
        for e in eofs:
            self.copies[e.raw] = self.copies.get(e.raw, 0) + 1
        p = self.eof
        if rec.op == "cancel" and rec.ret is True:
            self.src_cancelled = True
        if p is None:
            if eofs and rec.post.step in ("WAITING_FOR_EOF_ACK", "RETRANSMITTING"):
                cancel = eofs[-1].info[1] != 0
                self.eof = Proc("eof", t + self.ack_ms, eofs[-1].raw, cancel)
            return
        # procedure active
        if rec.post.step not in ("WAITING_FOR_EOF_ACK", "RETRANSMITTING") and not eofs and not rec.faults:
            if rec.inb_kind == "ACK" and rec.exc is None:
                w.probe("C04.eof_acked")
                self.eof = None
                return
            if rec.inb_kind == "FIN" and rec.exc is None:
                # a Finished PDU proves that the EOF arrived: the exchange is over (progress)
                w.probe("C04.eof_acked_by_finished")
                self.eof = None
                return
        if rec.op == "cancel" and rec.ret is True:
            # user cancel while waiting for the EOF ACK: a new EOF (cancel) exchange starts, or, if
            # the exchange was already a cancel exchange, the transaction is abandoned
            if rec.post.state == "IDLE":
                self.eof = None
            elif eofs:
                self.eof = Proc("eof", t + self.ack_ms, eofs[-1].raw, True)
            return
        observing = rec.op == "sm" and rec.inb is None and rec.pre.step in ("WAITING_FOR_EOF_ACK", "RETRANSMITTING")
        if rec.op == "sm" and rec.inb is not None and rec.inb_kind not in ("NAK", "ACK") and rec.exc is None:
            # e.g. a Finished PDU that passes admission because the public step is RETRANSMITTING
            observing = rec.pre.step in ("WAITING_FOR_EOF_ACK", "RETRANSMITTING")
        if not observing:
            if eofs or any(f[2] == POS_ACK_LIMIT for f in rec.faults):
                w.violate("C04.eof_unexpected_action", f"op={rec.op} in={rec.inb_kind} step={rec.pre.step}", "")
            return
        lim_faults = [f for f in rec.faults if f[2] == POS_ACK_LIMIT]
        if t < p.deadline:
            if eofs or lim_faults:
                w.violate("C04.eof_early", f"count={p.count} N={self.N_ack} cancel_phase={p.cancel_phase}",
                          f"t={t} deadline={p.deadline}")
            return
        self.expiries += 1
        w.probe("C04.eof_expiry")
        if p.count + 1 >= self.N_ack:
            # limit fault on this expiry
            if not p.cancel_phase:
                ok = any(f[0] == "cancel" for f in lim_faults) and eofs and eofs[-1].info[1] == POS_ACK_LIMIT
                if not ok:
                    w.violate("C04.eof_limit_fault", f"phase=first N={self.N_ack} count={p.count} faults={len(lim_faults)} eofs={len(eofs)}",
                              f"post={rec.post.step}")
                    self.eof = None
                    return
                w.probe("C04.sender_cancelled_at_limit")
                self.src_cancelled = True
                self.eof = Proc("eof", t + self.ack_ms, eofs[-1].raw, True)
            else:
                ok = any(f[0] == "abandon" for f in rec.faults) and rec.post.state == "IDLE" and not eofs
                if ok and len([f for f in rec.faults if f[2] == POS_ACK_LIMIT]) != 1:
                    # the abandonment is the whole outcome of this expiry: no second callback for the same fault
                    w.violate("C04.eof_abandon", f"N={self.N_ack} extra callbacks at the abandonment: {[(f[0], f[2]) for f in rec.faults]}", "")
                if not ok:
                    w.violate("C04.eof_abandon", f"N={self.N_ack} count={p.count} faults={[f[0] for f in rec.faults]} post={rec.post.step}", "")
                else:
                    # the fault declared at this expiry is the limit fault of the procedure, whatever started the cancel exchange
                    ab = [f for f in rec.faults if f[0] == "abandon"]
                    if ab and ab[0][2] != POS_ACK_LIMIT:
                        w.violate("C04.abandon_condition", f"sender abandon callback carries condition {ab[0][2]} instead of Positive ACK Limit Reached", "")
                w.probe("C04.sender_abandoned")
                self.eof = None
            return
        # ordinary expiry: re-send the same EOF
        if lim_faults:
            w.violate("C04.eof_fault_before_limit", f"count={p.count} N={self.N_ack}", "")
        if len(eofs) != 1:
            w.violate("C04.eof_resend", f"n_eof={len(eofs)} count={p.count} N={self.N_ack} cancel_phase={p.cancel_phase}", "")
        elif eofs[0].raw != p.raw:
            w.violate("C04.eof_resend_same_pdu", f"cancel_phase={p.cancel_phase}", f"{eofs[0].info} vs first")
        p.count += 1
        p.deadline = t + self.ack_ms

    # ---- receiver
    def _receiver(self, w, rec):
        t = rec.t
        fins = [e for e in rec.emitted if e.kind == "FIN"]
        naks = [e for e in rec.emitted if e.kind == "NAK"]
        if rec.op == "cancel" and rec.ret is True:
            self.dst_cancelled = True
        pre, post = rec.pre.step, rec.post.step
        # --- deferred NAK procedure
        p = self.nak
        if p is None:
            if naks and rec.post.extra[3] and post == "SENDING_EOF_ACK_PDU" and rec.inb_kind == "EOF":
                # the first sequence is issued (and the timer started) by a call that carries a further EOF PDU while
                # the acknowledgement of the first one is being sent (both EOFs handed over in one tick of the main loop)
                self.nak = p = Proc("nak", t + self.nak_ms)
                w.probe("C04.nak_first_issue_on_second_eof")
            elif pre == "SENDING_EOF_ACK_PDU" and post in ("WAITING_FOR_MISSING_DATA", "WAITING_FOR_METADATA") and rec.post.extra[3]:
                self.nak = Proc("nak", t + self.nak_ms)
                if not naks:
                    w.violate("C04.nak_first_issue", f"post={post}", "")
        elif pre == "SENDING_EOF_ACK_PDU" and post == "SENDING_EOF_ACK_PDU":
            pass  # still acknowledging
        else:
            if pre == "WAITING_FOR_METADATA" and post == "SENDING_EOF_ACK_PDU" and rec.inb_kind == "EOF":
                # a re-sent EOF while the Metadata is still missing is acknowledged again and counts
                # as activity (the handler passes through SENDING_EOF_ACK_PDU for one call)
                p.count = 0
                p.deadline = t + self.nak_ms
                w.probe("C04.nak_reset_by_eof")
            elif post not in ("WAITING_FOR_MISSING_DATA", "WAITING_FOR_METADATA") or not rec.post.extra[3]:
                lim = [f for f in rec.faults if f[2] == NAK_LIMIT]
                if lim:
                    # fault declared: must be exactly at the N-th expiry
                    if not (t >= p.deadline and p.count + 1 == self.N_nak) and not p.fuzzy:
                        w.violate("C04.nak_limit_fault_time", f"count={p.count} N={self.N_nak} expired={t >= p.deadline}", "")
                    else:
                        self.expiries += 1
                        w.probe("C04.nak_limit_reached")
                    self.dst_cancelled = True
                self.nak = None
            elif rec.op == "sm" and rec.pre.step in ("WAITING_FOR_MISSING_DATA", "WAITING_FOR_METADATA", "SENDING_EOF_ACK_PDU"):
                k = rec.inb_kind
                stored_fd = k == "FD" and pre != "WAITING_FOR_METADATA"  # data before Metadata is not stored
                # (a Metadata PDU is progress only while the Metadata is missing; a further copy is ignored)
                if (stored_fd or (k == "MD" and pre in ("WAITING_FOR_METADATA", "SENDING_EOF_ACK_PDU"))) and rec.exc is None:
                    # progress (or at least activity): count and timer restart - also when the PDU is handed over in
                    # the very call that finds the timer expired (timer / PDU arrival race): no NAK sequence and no
                    # fault is due in that call
                    if t >= p.deadline:
                        w.probe("C04.nak_progress_at_expired_timer")
                    lim = [f for f in rec.faults if f[2] == NAK_LIMIT]
                    if lim or (naks and not w.cfg.imm_nak):
                        w.violate("C04.nak_action_on_progress", f"count={p.count} N={self.N_nak} naks={len(naks)} fault={bool(lim)} in={k} "
                                  f"expired={t >= p.deadline}", f"t={t} deadline={p.deadline}")
                    p.count = 0
                    p.deadline = t + self.nak_ms
                    w.probe("C04.nak_progress_reset")
                elif k == "EOF" and rec.exc is None:
                    if pre == "WAITING_FOR_METADATA":
                        p.count = 0
                        p.deadline = t + self.nak_ms
                    # in WAITING_FOR_MISSING_DATA a re-sent EOF is only acknowledged again
                elif rec.exc is None:
                    lim = [f for f in rec.faults if f[2] == NAK_LIMIT]
                    if t < p.deadline:
                        if (naks and k is None) or lim:
                            w.violate("C04.nak_early", f"count={p.count} N={self.N_nak} fault={bool(lim)}", f"t={t} deadline={p.deadline}")
                    else:
                        self.expiries += 1
                        w.probe("C04.nak_expiry")
                        if p.count + 1 == self.N_nak:
                            w.violate("C04.nak_limit_fault_missing", f"count={p.count} N={self.N_nak} naks={len(naks)}", "")
                        else:
                            if not naks:
                                w.violate("C04.nak_resend", f"count={p.count} N={self.N_nak}", "")
                            if lim:
                                w.violate("C04.nak_fault_before_limit", f"count={p.count} N={self.N_nak}", "")
                            p.count += 1
                            p.deadline = t + self.nak_ms
        # --- Finished procedure
        for e in fins:
            self.copies[e.raw] = self.copies.get(e.raw, 0) + 1
        p = self.fin
        if p is None:
            if fins and post == "WAITING_FOR_FINISHED_ACK":
                self.fin = Proc("fin", t + self.ack_ms, fins[-1].raw, fins[-1].info[1] != 0)
            return
        if post != "WAITING_FOR_FINISHED_ACK" and not rec.faults:
            if rec.inb_kind == "ACK":
                w.probe("C04.fin_acked")
            self.fin = None
            return
        if rec.op == "cancel" and rec.ret is True:
            p.fuzzy = True  # C12's business: what a cancel during the Finished exchange does
            return
        observing = rec.op == "sm" and pre == "WAITING_FOR_FINISHED_ACK" and rec.inb_kind not in ("ACK", "EOF") and rec.exc is None
        if not observing:
            return
        if p.fuzzy:
            if post != "WAITING_FOR_FINISHED_ACK":
                self.fin = None
            return
        lim = [f for f in rec.faults if f[2] == POS_ACK_LIMIT]
        if t < p.deadline:
            if fins or lim:
                w.violate("C04.fin_early", f"count={p.count} N={self.N_ack} cancel_phase={p.cancel_phase}", f"t={t} deadline={p.deadline}")
            return
        self.expiries += 1
        w.probe("C04.fin_expiry")
        if p.count + 1 >= self.N_ack:
            if not p.cancel_phase:
                ok = any(f[0] == "cancel" for f in lim) and fins and fins[-1].info[1] == POS_ACK_LIMIT and post == "WAITING_FOR_FINISHED_ACK"
                if not ok:
                    w.violate("C04.fin_limit_fault", f"phase=first N={self.N_ack} count={p.count} faults={[f[0] for f in rec.faults]} fins={len(fins)} post={post}", "")
                    self.fin = None
                    return
                w.probe("C04.receiver_cancelled_at_limit")
                self.dst_cancelled = True
                self.fin = Proc("fin", t + self.ack_ms, fins[-1].raw, True)
            else:
                ok = any(f[0] == "abandon" for f in rec.faults) and rec.post.state == "IDLE" and not fins
                if ok and len([f for f in rec.faults if f[2] == POS_ACK_LIMIT]) != 1:
                    w.violate("C04.fin_abandon", f"N={self.N_ack} extra callbacks at the abandonment: {[(f[0], f[2]) for f in rec.faults]}", "")
                if not ok:
                    w.violate("C04.fin_abandon", f"N={self.N_ack} count={p.count} faults={[f[0] for f in rec.faults]} post={post} fins={len(fins)}", "")
                w.probe("C04.receiver_abandoned")
                self.fin = None
            return
        if lim:
            w.violate("C04.fin_fault_before_limit", f"count={p.count} N={self.N_ack}", "")
        if len(fins) != 1:
            w.violate("C04.fin_resend", f"n_fin={len(fins)} count={p.count} N={self.N_ack} cancel_phase={p.cancel_phase}", "")
        elif fins[0].raw != p.raw:
            w.violate("C04.fin_resend_same_pdu", f"cancel_phase={p.cancel_phase}", f"{fins[0].info}")
        p.count += 1
        p.deadline = t + self.ack_ms

    src_store_broken = False

    def on_call(self, w, rec) -> None:
        if rec.ent == "a" and rec.hk == "src":
            if self.src_store_broken:
                # the sender's filestore fails from the first EOF on (source file vanished): EOF PDUs cannot be rebuilt, so
                # the step-by-step model is off for the sender; what remains is the bounded end (silent_peer_hangs) and
                # the bound on copies
                for e in rec.emitted:
                    if e.kind == "EOF":
                        self.copies[e.raw] = self.copies.get(e.raw, 0) + 1
                if rec.vfs_rejects:
                    self.expiries += 1
                return
            self._sender(w, rec)
        elif rec.ent == "b" and rec.hk == "dst":
            self._receiver(w, rec)


class SilenceTrigger(Monitor):
    """Makes a direction of the link go silent at a tape-chosen point."""

    def __init__(self, w, t):
        self.mode = t.weighted([3, 2, 2, 2, 1], "cut at")  # nth call / EOF / NAK / FIN / ACK
        self.n = 1 + t.choose(24, "cut after call")
        self.before = t.choose(2, "cut before pdu") == 1
        self.dirs = [("a",), ("b",), ("a", "b")][t.choose(3, "cut dirs")]
        c = w.cfg
        unit = int(max(c.ack_s, c.nak_s) * 1000)
        self.heal = [None, unit // 2, unit + 50, 2 * unit + 50, 3 * unit + 50][t.weighted([4, 1, 2, 2, 1], "heal after")]
        self.done = False
        self.cut_t = None
        self.base = None

    def on_call(self, w, rec) -> None:
        if self.done:
            return
        hit = False
        if self.mode == 0:
            if self.base is None:
                self.base = rec.seq - 1
            hit = rec.seq - self.base >= self.n
        else:
            kind = {1: "EOF", 2: "NAK", 3: "FIN", 4: "ACK"}[self.mode]
            hit = any(e.kind == kind for e in rec.emitted)
        if not hit:
            return
        self.done = True
        self.cut_t = rec.t

        def cut(w2):
            for d in self.dirs:
                w2.link.partition[d] = True
            w2.log.append(f"  SILENCE {'+'.join(self.dirs)} heal={self.heal}")
            if self.heal is not None:
                def heal(w3):
                    for d in self.dirs:
                        w3.link.partition[d] = False
                    w3.log.append("  HEAL")
                w3_t = w2.clock.t + self.heal
                w2.push(w3_t, ("fn", heal))

        if self.before or self.mode == 0:
            cut(w)  # takes effect before this call's PDUs are handed to the link
        else:
            w.push(w.clock.t, ("fn", cut))


def run_one(t):
    f = {"mode": ACK, "shell": "history", "metadata_only": False, "poll_ms": [100, 50, 200, 250][t.choose(4, "poll")],
         "ack_lim": [2, 1, 3, 4][t.choose(4, "N ack")], "nak_lim": [2, 1, 3, 4][t.choose(4, "N nak")]}
    cfg = Cfg.draw(t, f)
    if cfg.size // max(cfg.eff_seg, 1) > 30:
        cfg.size_sel = 6
        cfg.finish()
    w = World(t, cfg)
    ctx = Ctx(w, "silence")
    try:
        # a quarter of the runs: the handlers already ran a transaction, which the sending user cancelled in half of
        # the cases (whatever it left behind must not shorten or lengthen the retry procedures of this one)
        if t.choose(4, "prelude") == 3:
            from props.pops import prelude

            prelude(w, cancel_after=[None, 2 + t.choose(12, "prelude cancel after")][t.choose(2, "prelude cancelled")],
                    idle_ms=[0, 3000][t.choose(2, "prelude idle")])
        mon = RetryMonitor(w)
        trig = SilenceTrigger(w, t)
        w.monitors.extend([trig, mon])
        # optionally a user cancel request (either side) at a tape-chosen call, before or after the cut: the
        # EOF (cancel) / Finished (cancel) exchange then has to cope with the silent peer on its own
        csel = t.weighted([4, 2, 1], "user cancel")
        cafter = 1 + t.choose(30, "user cancel after call")
        if csel:
            from props.pops import CancelTrigger

            w.monitors.append(CancelTrigger(ctx, [(cafter, csel - 1, False)]))
        # a few ordinary link faults before the silence create lost segments (NAK procedure)
        if t.choose(2, "pre faults"):
            w.link.enabled = {"drop"}
            w.link.rate = [(1, 4), (1, 2)][t.choose(2, "pre fault rate")]
            w.link.budget = 1 + t.choose(4, "pre fault budget")  # several gaps: progress on one while another stays open
        # timer / PDU arrival races: in a quarter of the runs both entities run a main loop with a period around the
        # timer intervals, so that awaited PDUs are handed over in the call that also finds the timer expired
        # a sixth of the runs: the source file vanishes from the sender's filestore once the EOF PDU was built (storage
        # fault: read_data / calculate_checksum / file_size raise FileNotFoundError from then on; the user keeps calling)
        if t.choose(6, "source file vanishes") == 5:
            def vanish(who, op, path, *extra):
                if who == "a" and mon.src_store_broken:
                    w.link.fired["src_store_error"] = w.link.fired.get("src_store_error", 0) + 1
                    return FileNotFoundError(str(path))
                return None

            class _Arm(Monitor):
                def on_call(self, w2, rec):
                    if rec.ent == "a" and rec.hk == "src" and any(e.kind == "EOF" for e in rec.emitted):
                        mon.src_store_broken = True

            w.fs_fault_x = vanish
            w.monitors.append(_Arm())
        unit = max(cfg.ack_s, cfg.nak_s)
        if t.choose(4, "ticked pacing") == 3:
            from props.pops import ticked_pacing

            ticked_pacing(w, t)
            unit += 2 * w.tick_ms / 1000
        bound_ms = int((2 * cfg.ack_lim + cfg.nak_lim + 4) * unit * 1000) + 2000
        w.max_events = 30000
        w.max_t = 10_000_000
        _start(ctx, None)

        def until(w):
            return trig.cut_t is not None and trig.heal is None and w.clock.t > trig.cut_t + bound_ms

        reason = w.run(until=until)
        excused = {}
        permanent = trig.done and trig.heal is None
        if permanent and not w.all_idle():
            sa = w.a.handlers["src"]
            sb = w.b.handlers["dst"]
            stuck = []
            if sa.state.name != "IDLE":
                if sa.step.name == "WAITING_FOR_FINISHED":
                    excused["excused_unimplemented_wait_sender"] = 1
                else:
                    stuck.append(f"src={sa.step.name}")
            if sb.state.name != "IDLE":
                if sb.step.name in ("RECEIVING_FILE_DATA",) or (
                    sb.step.name == "WAITING_FOR_METADATA" and not sb.deferred_lost_segment_procedure_active
                ):
                    excused["excused_unimplemented_wait_receiver"] = 1
                else:
                    stuck.append(f"dst={sb.step.name}")
            if stuck:
                w.violate("C04.silent_peer_hangs", " ".join(stuck) + f" N_ack={cfg.ack_lim} N_nak={cfg.nak_lim} cut={'+'.join(trig.dirs)}",
                          f"reason={reason} t={w.clock.t} cut_t={trig.cut_t} bound={bound_ms}")
        for raw, n in mon.copies.items():
            if n > max(cfg.ack_lim, 1):
                w.violate("C04.bounded_copies", f"n={n} N_ack={cfg.ack_lim}", raw.hex()[:30])
                break
        r = from_world(w, ctx.pop, mon.expiries > 0)
        r.excused.update(excused)
        return r
    finally:
        w.close()
