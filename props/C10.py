"""C10 - handlers fail only with protocol exceptions and only when the caller is at fault."""
from __future__ import annotations

from cfdpsim.runner import from_world
from props import insitu, pops
from props.monitors import ExceptionMonitor, RoutingMonitor
from props.synthpop import synthetic

RULE = (
    "synthetic population: a real transfer is driven to a tape-chosen point (optionally with link faults), then 6..35 "
    "operations drawn from {synthetic PDU of any of the 9 kinds with admission-aware header and perturbed fields at "
    "either entity, poll of any of the 4 handlers, clock advance past each timer, real link steps, cancel with right / "
    "wrong id, second put request, shell stops draining}; default fault handlers; also the bounded-fault, cancel and "
    "chaos populations with the same monitor; non-trivial = at least one synthetic PDU accepted and one rejected (or "
    "population rule); distinct = interleaving signature"
)
ASSUMPTIONS = [
    "well-formed PDU = whatever the spacepackets codec encodes and decodes again (PDUs cross as bytes); file names are str in "
    "that codec's Metadata model, so a name field that is not UTF-8 is not generated (its decoding error comes out of the codec's "
    "own property; DESIGN 12.2)",
    "un-drained PDUs at call entry are known to the shell: 0 while it drains completely, else the public counter",
    "admission set = direction, ids, sequence number, not-for-this-handler, ignored-for-mode/state, no-remote-config",
    "FileNotFoundError / PermissionError raised by the user's filestore are not handler-internal errors",
]
BUDGET = {"quick": 30, "thorough": 900}


def attach(ctx):
    return [ExceptionMonitor(ctx.w)]


def run_one(t):
    pop = t.weighted([6, 1, 1, 1], "population")
    if pop == 0:
        ctx = synthetic(t, attach, force={"msgs": 0})
        w = ctx.w
        try:
            return from_world(w, ctx.pop, ctx.nontrivial)
        finally:
            w.close()
    name = ["bounded_faults", "cancel", "chaos"][pop - 1]
    return insitu.run(t, {name: 1}, attach)
