"""C02 - every transfer over a fault-free link completes successfully in every mode.

Population: one put request per run over a link that delivers every PDU once and in order; plain
shell; full configuration swarm; tape-decided pacing of state-machine calls. Timer intervals are
far beyond the simulated duration of a run, so no expiry can be demanded by slow pacing.
"""
from __future__ import annotations

from cfdpsim.runner import from_world
from cfdpsim.world import World
from props import pops

RULE = (
    "one put request per run, configuration and pacing drawn from the tape (mode x closure x checksum x CRC x "
    "id/seq widths x NAK mode x segment length x max packet length x destination shape x size class x "
    "indication switches x filestore kind); distinct = distinct interleaving signature (sequence of "
    "(entity, handler, op, inbound PDU kind, emitted PDU kinds)); non-trivial = the run used tape-decided pacing "
    "with at least two different pacing decisions and transferred at least one PDU in each direction or was "
    "an unacknowledged no-closure transfer"
)
ASSUMPTIONS = [
    "link delivers every PDU once and in order (no fault injected in this population)",
    "timer intervals (1e5 s) exceed the simulated duration, so pacing means order, not elapsed time",
    "segment length >= 1 and max packet length >= fixed part of the largest PDU kind (preconditions of the statement)",
]
BUDGET = {"quick": 25, "thorough": 600}



def run_one(t):
    ctx = pops.faultfree(t)
    w = ctx.w
    try:
        if ctx.put_rec.ret is not True or ctx.put_rec.exc is not None:
            w.violate("C02.put_accepted", f"ret={ctx.put_rec.ret} exc={ctx.put_rec.exc!r}", "")
        judge(w, ctx.reason, ctx.info.get("base_ind", 0), ctx.info.get("base_fault", 0), ctx.info.get("base_lib_excs"), ctx.info.get("base_internal", 0))
        _eager_user_epilogue(w, t)
        _repetition_epilogue(w, t)
        return from_world(w, ctx.pop, ctx.nontrivial)
    finally:
        w.close()


def _eager_user_epilogue(w, t) -> None:
    """Two further transfers, back to back, by a user who hands over the next put request as soon as the handler is idle -
    in unacknowledged mode without closure that is BEFORE the EOF PDU of the transfer that has just ended was fetched.
    Both files must arrive; nothing may raise."""
    from pathlib import Path

    from cfdpsim.world import UNACK

    cfg = w.cfg
    if w.violations or cfg.metadata_only or not w.all_idle() or t.choose(5, "eager user epilogue") != 4:
        return
    a = w.a
    h = a.handlers["src"]
    base_lib = dict(w.lib_excs)
    base_int = len(w.internal_errors)
    base_ind = len(w.ind_log)
    w.heap.clear()
    w.pending = 0
    w.pacing = "regular"
    reqs = []
    for name in ("dst/second.bin", "dst/third.bin"):
        r = w.put_request_obj(None)
        r.trans_mode = UNACK
        r.closure_requested = False
        r.dest_file = Path(name)
        reqs.append(r)
    rec = w.call(a, "src", "put", arg=reqs[0])
    if rec.ret is not True or rec.exc is not None:
        w.violate("C02.put_accepted", f"second transfer ret={rec.ret} exc={rec.exc!r}", "")
        return
    eager = False
    last = rec
    for _ in range(400):
        if last.op == "sm" and last.post.progress >= len(w.src_bytes) and last.post.step in ("SENDING_FILE_DATA", "SENDING_METADATA"):
            a.nodrain = True  # the EOF PDU is due: the user looks at the state before fetching what this call produced
        last = w.poll(a, "src")
        if a.nodrain:
            if h.state.name == "IDLE":
                eager = True
                rec = w.call(a, "src", "put", arg=reqs[1])
                if rec.ret is not True or rec.exc is not None:
                    w.violate("C02.put_accepted", f"third transfer ret={rec.ret} exc={rec.exc!r} (handler idle, EOF of the second not fetched yet)", "")
            a.nodrain = False
            w.call(a, "src", "fetch")  # now the user fetches what is ready (the EOF PDU of the second transfer), then goes on polling
            break
        if h.state.name == "IDLE":
            break
    if not eager:
        a.nodrain = False
        return
    w.probe("C02.eager_user_back_to_back")
    w.polls_stopped = False
    w.start_polls()
    w.max_events += w.nev + 3000
    reason = w.run()
    tag = "eager user: put request before the EOF of the previous transfer was fetched"
    if reason != "quiet" or not w.all_idle():
        w.violate("C02.completes", f"{tag}; src={h.step.name} dst={w.b.handlers['dst'].step.name}", f"run ended by {reason}")
    lib = {k: v - base_lib.get(k, 0) for k, v in w.lib_excs.items() if v - base_lib.get(k, 0) > 0}
    if w.internal_errors[base_int:]:
        e = w.internal_errors[base_int]
        w.violate("C02.no_exception", f"{e.cls}@{e.func} ({tag})", e.msg)
    elif lib:
        w.violate("C02.no_exception", "lib:" + ",".join(sorted(lib)) + f" ({tag})", "")
    for name in ("dst/second.bin", "dst/third.bin"):
        got = w.vfs_a.h_get(name)
        if got != w.src_bytes:
            w.violate("C02.file_equal", f"{name} got={'none' if got is None else len(got)} want={len(w.src_bytes)} ({tag})", "")
    if cfg.ind_b & 8:
        ok = [i for i in w.ind_log[base_ind:] if i[0] == "b" and i[1][0] == "finished" and i[1][2][:2] == (0, 0)]
        if len(ok) != 2:
            w.violate("C02.one_finished_receiver", f"n={len(ok)} for two transfers ({tag})", "")


def _repetition_epilogue(w, t) -> None:
    """Scale by repetition: with 1-byte sequence numbers, 257 further small transfers through the same handlers, so that the
    sequence number wraps and every transaction id is used a second time. Each put request must still run to completion."""
    from pathlib import Path

    from cfdpsim.world import UNACK

    cfg = w.cfg
    if w.violations or cfg.metadata_only or cfg.seqw != 1 or len(w.src_bytes) > 4 * max(cfg.eff_seg, 1) or not w.all_idle() \
            or w.a.handlers["src"].packets_ready:
        return
    if t.choose(8, "repetition epilogue") != 7:
        return
    a = w.a
    w.heap.clear()
    w.pending = 0
    w.pacing = "event"
    w.polls_stopped = False
    base_lib = dict(w.lib_excs)
    base_int = len(w.internal_errors)
    w.max_events += w.nev + 40000
    w.max_t += w.clock.t + 10_000_000
    ok_before = len([i for i in w.ind_log if i[0] == "b" and i[1][0] == "finished" and i[1][2][:2] == (0, 0)])
    n = 257
    for k in range(n):
        r = w.put_request_obj(None)
        r.trans_mode = UNACK
        r.closure_requested = bool(k % 2)
        r.dest_file = Path("dst/rep.bin")
        rec = w.call(a, "src", "put", arg=r)
        if rec.ret is not True or rec.exc is not None:
            w.violate("C02.put_accepted", f"transfer {k + 1} of the repetition: ret={rec.ret} exc={rec.exc!r}", "")
            return
        w.start_polls()
        reason = w.run()
        if reason != "quiet" or not w.all_idle():
            w.violate("C02.completes", f"transfer {k + 1} of {n} consecutive small transfers (1-byte sequence numbers, id used before: {k >= 256 - 1}) "
                      f"src={a.handlers['src'].step.name} dst={w.b.handlers['dst'].step.name}", f"run ended by {reason}")
            return
        if w.vfs_a.h_get("dst/rep.bin") != w.src_bytes:
            w.violate("C02.file_equal", f"transfer {k + 1} of the repetition", "")
            return
        w.vfs_a.h_put("dst/rep.bin", b"stale")
    w.probe("C02.repetition_257_transfers")
    lib = {k2: v - base_lib.get(k2, 0) for k2, v in w.lib_excs.items() if v - base_lib.get(k2, 0) > 0}
    if w.internal_errors[base_int:]:
        e = w.internal_errors[base_int]
        w.violate("C02.no_exception", f"{e.cls}@{e.func} (repetition)", e.msg)
    elif lib:
        w.violate("C02.no_exception", "lib:" + ",".join(sorted(lib)) + " (repetition)", "")
    if cfg.ind_b & 8:
        ok = len([i for i in w.ind_log if i[0] == "b" and i[1][0] == "finished" and i[1][2][:2] == (0, 0)]) - ok_before
        if ok != n:
            w.violate("C02.one_finished_receiver", f"n={ok} for {n} transfers (repetition)", "")


def judge(w: World, reason: str, base_ind: int = 0, base_fault: int = 0, base_lib=None, base_internal: int = 0) -> None:
    cfg = w.cfg
    tag = f"mode={cfg.mode.name[:5]} closure={cfg.closure} md_only={cfg.metadata_only} empty={cfg.size == 0}"
    if reason != "quiet":
        sa = w.a.handlers["src"].step.name
        sb = w.b.handlers["dst"].step.name
        w.violate("C02.completes", f"{tag} stuck src={sa} dst={sb}", f"run ended by {reason}")
    # exceptions raised while an earlier (possibly cancelled) prelude transaction ran are not this transfer's
    internal = w.internal_errors[base_internal:]
    lib = {k: v - (base_lib or {}).get(k, 0) for k, v in w.lib_excs.items() if v - (base_lib or {}).get(k, 0) > 0}
    if internal:
        e = internal[0]
        w.violate("C02.no_exception", f"{e.cls}@{e.func}", e.msg)
    elif lib:
        w.violate("C02.no_exception", "lib:" + ",".join(sorted(lib)), tag)
    # indications / faults
    ind_log = w.ind_log[base_ind:]
    fault_log = w.fault_log[base_fault:]
    fin_a = [i for i in ind_log if i[0] == "a" and i[1][0] == "finished"]
    fin_b = [i for i in ind_log if i[0] == "b" and i[1][0] == "finished"]
    if fault_log:
        f = fault_log[0]
        w.violate("C02.no_fault_callback", f"{f[0]}:{f[1][0]} cond={f[1][2]} {tag}", str(fault_log[:3]))
    if cfg.ind_a & 8:
        if len(fin_a) != 1:
            w.violate("C02.one_finished_sender", f"n={len(fin_a)} {tag}", "")
        elif fin_a[0][1][2][:2] != (0, 0):
            w.violate("C02.finished_success_sender", f"{fin_a[0][1][2]} {tag}", "")
    if cfg.ind_b & 8:
        if len(fin_b) != 1:
            w.violate("C02.one_finished_receiver", f"n={len(fin_b)} {tag}", "")
        elif fin_b[0][1][2][:2] != (0, 0):
            w.violate("C02.finished_success_receiver", f"{fin_b[0][1][2]} {tag}", "")
    if not cfg.metadata_only:
        got = w.dst_bytes()
        if got != w.src_bytes:
            w.violate(
                "C02.file_equal",
                f"{tag} dst_shape={cfg.dst_shape} got={'none' if got is None else len(got)} want={len(w.src_bytes)}",
                "",
            )
    if reason == "quiet" and not w.all_idle():
        w.violate("C02.idle", tag, "")
