"""C02 - every transfer over a fault-free link completes successfully in every mode.

Population: one put request per run over a link that delivers every PDU once and in order; plain
shell; full configuration swarm; tape-decided pacing of state-machine calls. Timer intervals are
far beyond the simulated duration of a run, so no expiry can be demanded by slow pacing.
"""
from __future__ import annotations

from cfdpsim.runner import from_world
from cfdpsim.world import World
from props import pops

RULE = (
    "one put request per run, configuration and pacing drawn from the tape (mode x closure x checksum x CRC x "
    "id/seq widths x NAK mode x segment length x max packet length x destination shape x size class x "
    "indication switches x filestore kind); distinct = distinct interleaving signature (sequence of "
    "(entity, handler, op, inbound PDU kind, emitted PDU kinds)); non-trivial = the run used tape-decided pacing "
    "with at least two different pacing decisions and transferred at least one PDU in each direction or was "
    "an unacknowledged no-closure transfer"
)
ASSUMPTIONS = [
    "link delivers every PDU once and in order (no fault injected in this population)",
    "timer intervals (1e5 s) exceed the simulated duration, so pacing means order, not elapsed time",
    "segment length >= 1 and max packet length >= fixed part of the largest PDU kind (preconditions of the statement)",
]
BUDGET = {"quick": 25, "thorough": 600}



def run_one(t):
    ctx = pops.faultfree(t)
    w = ctx.w
    try:
        if ctx.put_rec.ret is not True or ctx.put_rec.exc is not None:
            w.violate("C02.put_accepted", f"ret={ctx.put_rec.ret} exc={ctx.put_rec.exc!r}", "")
        judge(w, ctx.reason, ctx.info.get("base_ind", 0), ctx.info.get("base_fault", 0), ctx.info.get("base_lib_excs"), ctx.info.get("base_internal", 0))
        return from_world(w, ctx.pop, ctx.nontrivial)
    finally:
        w.close()


def judge(w: World, reason: str, base_ind: int = 0, base_fault: int = 0, base_lib=None, base_internal: int = 0) -> None:
    cfg = w.cfg
    tag = f"mode={cfg.mode.name[:5]} closure={cfg.closure} md_only={cfg.metadata_only} empty={cfg.size == 0}"
    if reason != "quiet":
        sa = w.a.handlers["src"].step.name
        sb = w.b.handlers["dst"].step.name
        w.violate("C02.completes", f"{tag} stuck src={sa} dst={sb}", f"run ended by {reason}")
    # exceptions raised while an earlier (possibly cancelled) prelude transaction ran are not this transfer's
    internal = w.internal_errors[base_internal:]
    lib = {k: v - (base_lib or {}).get(k, 0) for k, v in w.lib_excs.items() if v - (base_lib or {}).get(k, 0) > 0}
    if internal:
        e = internal[0]
        w.violate("C02.no_exception", f"{e.cls}@{e.func}", e.msg)
    elif lib:
        w.violate("C02.no_exception", "lib:" + ",".join(sorted(lib)), tag)
    # indications / faults
    ind_log = w.ind_log[base_ind:]
    fault_log = w.fault_log[base_fault:]
    fin_a = [i for i in ind_log if i[0] == "a" and i[1][0] == "finished"]
    fin_b = [i for i in ind_log if i[0] == "b" and i[1][0] == "finished"]
    if fault_log:
        f = fault_log[0]
        w.violate("C02.no_fault_callback", f"{f[0]}:{f[1][0]} cond={f[1][2]} {tag}", str(fault_log[:3]))
    if cfg.ind_a & 8:
        if len(fin_a) != 1:
            w.violate("C02.one_finished_sender", f"n={len(fin_a)} {tag}", "")
        elif fin_a[0][1][2][:2] != (0, 0):
            w.violate("C02.finished_success_sender", f"{fin_a[0][1][2]} {tag}", "")
    if cfg.ind_b & 8:
        if len(fin_b) != 1:
            w.violate("C02.one_finished_receiver", f"n={len(fin_b)} {tag}", "")
        elif fin_b[0][1][2][:2] != (0, 0):
            w.violate("C02.finished_success_receiver", f"{fin_b[0][1][2]} {tag}", "")
    if not cfg.metadata_only:
        got = w.dst_bytes()
        if got != w.src_bytes:
            w.violate(
                "C02.file_equal",
                f"{tag} dst_shape={cfg.dst_shape} got={'none' if got is None else len(got)} want={len(w.src_bytes)}",
                "",
            )
    if reason == "quiet" and not w.all_idle():
        w.violate("C02.idle", tag, "")
