"""C03 - acknowledged mode recovers from bounded loss, duplication and reordering."""
from __future__ import annotations

from cfdpsim.runner import from_world
from props import pops

RULE = (
    "acknowledged transfers over a link that drops / duplicates / delays (reorders) at most K PDUs (K drawn per run, "
    "0..4), every expiration limit in K+1..K+3, history shell; after the last fault the link is FIFO and polls continue; "
    "non-trivial = K >= 1 and every budgeted fault actually hit a PDU; distinct = distinct interleaving signature"
)
ASSUMPTIONS = [
    "the surrounding entity answers PDUs for transactions the addressed handler already closed (history shell)",
    "bound after the last fault: (2*ack_limit + nak_limit + 6) x longest timer interval + longest injected delay",
    "sampling, not enumeration: coverage of the K<=1 sub-space is reported as probes fault_cell:*",
]
BUDGET = {"quick": 30, "thorough": 900}


def run_one(t):
    ctx = pops.bounded_faults(t)
    w = ctx.w
    try:
        judge(ctx)
        r = from_world(w, ctx.pop, ctx.nontrivial)
        return r
    finally:
        w.close()


def judge(ctx) -> None:
    w = ctx.w
    cfg = w.cfg
    K = ctx.info["K"]
    hits = sorted((h[0], h[1]) for h in w.link.hit_log)
    for h in w.link.hit_log:
        w.probe(f"fault_cell:{h[0]}:{h[1]}")
    base = f"K={K} nak={'imm' if cfg.imm_nak else 'def'} closure={cfg.closure} empty={cfg.size == 0} md_only={cfg.metadata_only}"
    locus = base + " faults=" + ";".join(f"{a}:{b}" for a, b in hits)
    if w.link.hit_log:
        last = w.link.hit_log[-1]
        locus += f" last@src={last[3]},dst={last[4]}"
    ok_idle = w.all_idle()
    base = ctx.info.get("base_ind", 0)  # indications of a prelude transaction do not count
    fin_a = [i for i in w.ind_log[base:] if i[0] == "a" and i[1][0] == "finished"]
    fin_b = [i for i in w.ind_log[base:] if i[0] == "b" and i[1][0] == "finished"]
    sa = w.a.handlers["src"].step.name
    sb = w.b.handlers["dst"].step.name
    if not ok_idle:
        w.violate("C03.idle", locus, f"after bound: src={sa} dst={sb} reason={ctx.reason} t={w.clock.t}")
    if not cfg.metadata_only:
        got = w.dst_bytes()
        if got != w.src_bytes:
            w.violate("C03.file_identical", locus, f"got={'none' if got is None else len(got)} want={len(w.src_bytes)}")
    if cfg.ind_a & 8:
        if not any(i[1][2][:2] == (0, 0) for i in fin_a):
            w.violate("C03.sender_success", locus, f"finished indications at sender: {[i[1][2] for i in fin_a]}")
    if cfg.ind_b & 8:
        if not any(i[1][2][:2] == (0, 0) for i in fin_b):
            w.violate("C03.receiver_success", locus, f"finished indications at receiver: {[i[1][2] for i in fin_b]}")
    # recovery means the retry procedures got through: with every limit above K no limit fault is ever due, and no user is
    # told that the delivered file failed after all
    for side, fins in (("sender", fin_a), ("receiver", fin_b)):
        bad = [i[1][2] for i in fins if i[1][2][0] != 0]
        if bad:
            w.violate("C03.unsuccessful_indication", locus, f"{side}: {bad}")
    flts = w.fault_log[ctx.info.get("base_fault", 0):]
    if flts:
        w.violate("C03.fault_declared", locus, f"{[(f[0], f[1][0], f[1][2]) for f in flts][:4]}")


# ---------------------------------------------------------------------------------------------
# sweep: every schedule with K <= 2 faults on small files (the "exhaustively for K<=2" part of the quantifier)

from cfdpsim.tape import Tape  # noqa: E402
from cfdpsim.world import ACK, Cfg, World  # noqa: E402
from props.pops import Ctx, _start  # noqa: E402

SWEEP_RULE = (
    "every fault schedule with K=1 (fault kind in drop / duplicate at once / duplicate 1.2 s later / delay 0.3 / 1.2 / 2.6 s "
    "on the n-th PDU handed to the link, either direction, n = 1 .. number of PDUs of the fault-free run + 2) and, tier "
    "thorough: every schedule with K=2 (kinds drop / duplicate / delay 1.2 s on PDUs n1 < n2 <= N + 6), tier quick: every "
    "third K=2 schedule; x immediate / deferred NAK x closure on / off x file sizes 0, 1 segment, 3.5 segments; limits K+1"
)
K1_KINDS = ["drop", "dup0", "dup1200", "delay300", "delay1200", "delay2600"]
K2_KINDS = ["drop", "dup0", "delay1200"]


def _sweep_cfg(p):
    K = len(p["faults"])
    f = {"mode": ACK, "shell": "history", "metadata_only": False, "poll_ms": 100, "imm_nak": bool(p["imm"]), "closure": bool(p["closure"]),
         "size_sel": p["size_sel"], "ack_lim": K + 1, "nak_lim": K + 1, "vfs": "mem", "ind_a": 15, "ind_b": 15, "msgs": 0}
    return Cfg.draw(Tape(values=[]), f)


def _fault_free_pdus(p) -> int:
    q = dict(p, faults=[])
    r = run_sweep(q, count_only=True)
    return r


def SWEEP(tier):
    cells = []
    for imm in (1, 0):
        for closure in (0, 1):
            for size_sel in (3, 1, 6):
                base = {"imm": imm, "closure": closure, "size_sel": size_sel}
                n = _fault_free_pdus(dict(base, faults=[]))
                for n1 in range(1, n + 3):
                    for k in K1_KINDS:
                        cells.append(dict(base, faults=[[n1, k]]))
                i = 0
                for n1 in range(1, n + 1):
                    for n2 in range(n1 + 1, n + 7):
                        for k1 in K2_KINDS:
                            for k2 in K2_KINDS:
                                i += 1
                                if tier == "thorough" or i % 3 == 0:
                                    cells.append(dict(base, faults=[[n1, k1], [n2, k2]]))
    return cells


def run_sweep(p, count_only=False):
    cfg = _sweep_cfg(p)
    t = Tape(values=[])
    w = World(t, cfg)
    ctx = Ctx(w, "sweep_K%d" % len(p["faults"]))
    plan = {int(n): k for n, k in p["faults"]}
    K = len(plan)
    state = {"n": 0, "hit": 0}

    def hook(src, dst, em, key):
        state["n"] += 1
        k = plan.get(state["n"])
        if k is None:
            return None
        state["hit"] += 1
        w.link.hit_log.append((k, key, em.info, w.a.handlers["src"].step.name, w.b.handlers["dst"].step.name))
        w.link.fired[k.rstrip("0123456789")] = w.link.fired.get(k.rstrip("0123456789"), 0) + 1
        if k == "drop":
            return ("drop",)
        if k.startswith("dup"):
            return ("dup", int(k[3:]))
        return ("delay", int(k[5:]))

    w.link.hook = hook
    try:
        ctx.info["K"] = K
        longest = max(cfg.ack_s, cfg.nak_s)
        bound_ms = int((2 * cfg.ack_lim + cfg.nak_lim + 6) * longest * 1000) + 2600 + 1000
        w.max_events = 20000
        w.max_t = 3_000_000
        _start(ctx, None)

        def until(w_):
            last = w_.link.last_fault_t or 0
            return w_.clock.t > last + bound_ms and (state["hit"] == K or w_.clock.t > bound_ms * 2)

        ctx.reason = w.run(until=until) if K else w.run()
        if count_only:
            return state["n"]
        ctx.nontrivial = K >= 1 and state["hit"] == K
        judge(ctx)
        r = from_world(w, ctx.pop, ctx.nontrivial)
        r.cfg = dict(r.cfg, sweep=p)
        return r
    finally:
        w.close()
