"""C03 - acknowledged mode recovers from bounded loss, duplication and reordering."""
from __future__ import annotations

from cfdpsim.runner import from_world
from props import pops

RULE = (
    "acknowledged transfers over a link that drops / duplicates / delays (reorders) at most K PDUs (K drawn per run, "
    "0..4), every expiration limit in K+1..K+3, history shell; after the last fault the link is FIFO and polls continue; "
    "non-trivial = K >= 1 and every budgeted fault actually hit a PDU; distinct = distinct interleaving signature"
)
ASSUMPTIONS = [
    "the surrounding entity answers PDUs for transactions the addressed handler already closed (history shell)",
    "bound after the last fault: (2*ack_limit + nak_limit + 6) x longest timer interval + longest injected delay",
    "sampling, not enumeration: coverage of the K<=1 sub-space is reported as probes fault_cell:*",
]
BUDGET = {"quick": 30, "thorough": 900}


def run_one(t):
    ctx = pops.bounded_faults(t)
    w = ctx.w
    try:
        judge(ctx)
        r = from_world(w, ctx.pop, ctx.nontrivial)
        return r
    finally:
        w.close()


def judge(ctx) -> None:
    w = ctx.w
    cfg = w.cfg
    K = ctx.info["K"]
    hits = sorted((h[0], h[1]) for h in w.link.hit_log)
    for h in w.link.hit_log:
        w.probe(f"fault_cell:{h[0]}:{h[1]}")
    base = f"K={K} nak={'imm' if cfg.imm_nak else 'def'} closure={cfg.closure} empty={cfg.size == 0} md_only={cfg.metadata_only}"
    locus = base + " faults=" + ";".join(f"{a}:{b}" for a, b in hits)
    if w.link.hit_log:
        last = w.link.hit_log[-1]
        locus += f" last@src={last[3]},dst={last[4]}"
    ok_idle = w.all_idle()
    fin_a = [i for i in w.ind_log if i[0] == "a" and i[1][0] == "finished"]
    fin_b = [i for i in w.ind_log if i[0] == "b" and i[1][0] == "finished"]
    sa = w.a.handlers["src"].step.name
    sb = w.b.handlers["dst"].step.name
    if not ok_idle:
        w.violate("C03.idle", locus, f"after bound: src={sa} dst={sb} reason={ctx.reason} t={w.clock.t}")
    if not cfg.metadata_only:
        got = w.dst_bytes()
        if got != w.src_bytes:
            w.violate("C03.file_identical", locus, f"got={'none' if got is None else len(got)} want={len(w.src_bytes)}")
    if cfg.ind_a & 8:
        if not any(i[1][2][:2] == (0, 0) for i in fin_a):
            w.violate("C03.sender_success", locus, f"finished indications at sender: {[i[1][2] for i in fin_a]}")
    if cfg.ind_b & 8:
        if not any(i[1][2][:2] == (0, 0) for i in fin_b):
            w.violate("C03.receiver_success", locus, f"finished indications at receiver: {[i[1][2] for i in fin_b]}")
