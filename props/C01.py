"""C01 - a reported successful delivery implies a byte-identical file (safety).

Population `chaos`: one transfer per run under arbitrarily many link faults (drop, duplicate, delay /
reorder, file-data bit flips, partitions), destination filestore rejections, stalls, clock jumps
and destination restarts. Nothing is demanded about completion. The oracle is evaluated at the
instant of each success report.
"""
from __future__ import annotations

from cfdpsim.models import ref_checksum
from cfdpsim.runner import from_world
from cfdpsim.world import ACK
from props import pops
from props.monitors import Monitor

RULE = (
    "one transfer per run in the chaos population (unbounded drop/dup/delay/corrupt faults with tape-drawn rates and "
    "enabled-kind subsets, destination write/create/truncate rejections, partitions, stalls, clock jumps, destination "
    "restart); null/modular checksum runs are restricted to acknowledged mode and loss/dup/delay (the quantifier); "
    "non-trivial = at least one fault actually fired; distinct = distinct interleaving signature"
)
ASSUMPTIONS = [
    "history shell: PDUs of transactions the handler already closed are kept away from it (what user.py/dest.py tell the user to do)",
    "a difference is excused only if a payload bit-flip fault fired in the run, lengths are equal and the reference checksum of "
    "the negotiated type collides (null / modular checksum runs never inject corruption, so nothing is ever excused there)",
    "transaction history of the user survives a destination restart; handler state does not",
]
BUDGET = {"quick": 30, "thorough": 900}


class SuccessOracle(Monitor):
    def __init__(self, ctx):
        self.w = ctx.w
        self.reports = 0
        self.collisions = 0
        self.extras = ctx.info.get("extras", {})
        ctx.w.user_hooks_b.append(self._hook_b)
        ctx.w.a.user.hooks.append(self._hook_a)

    def _compare(self, who: str) -> None:
        w = self.w
        c = w.cfg
        if c.metadata_only:
            return
        self.reports += 1
        w.probe("C01.success_report_" + who)
        got = w.dst_bytes()
        want = w.src_bytes
        if got == want:
            return
        # a genuine checksum collision needs wrong bytes to have been written, which only payload corruption can
        # cause: without a fired bit-flip fault (always the case for null / modular checksums, whose quantifier
        # excludes corruption) nothing is excused
        if (got is not None and len(got) == len(want) and w.link.fired.get("corrupt", 0) > 0
                and ref_checksum(int(c.ck), got) == ref_checksum(int(c.ck), want)):
            self.collisions += 1
            w.probe("C01.collision_excused")
            return
        fl = sorted({h[0] + ":" + h[1].split()[1] for h in w.link.hit_log})
        ex = [k for k, v in self.extras.items() if v]
        w.violate(
            "C01.success_but_different",
            f"{who} mode={c.mode.name[:5]} ck={c.ck.name} got={'none' if got is None else 'len' + ('=' if len(got) == len(want) else '!=')} "
            f"kinds={','.join(fl)} extras={','.join(ex)}",
            f"got={'none' if got is None else len(got)} want={len(want)}",
        )

    def _hook_b(self, ent, item) -> None:
        if item[0] == "finished" and item[2] == (0, 0, 2):
            self._compare("receiver_indication")

    def _hook_a(self, ent, item) -> None:
        c = self.w.cfg
        # the sender "reports success" with (no error, data complete); the file status it shows is whatever the
        # Finished PDU said (with closure / in acknowledged mode there always is one)
        if item[0] == "finished" and item[2][:2] == (0, 0) and (c.mode == ACK or c.closure):
            self._compare("sender_indication")

    def on_call(self, w, rec) -> None:
        if rec.ent == "b" and rec.hk == "dst":
            for em in rec.emitted:
                if em.kind == "FIN" and em.info[1:4] == (0, 0, 2):
                    self._compare("finished_pdu")


def run_one(t):
    holder = {}

    def attach(ctx):
        o = SuccessOracle(ctx)
        holder["o"] = o
        return [o]

    ctx = pops.chaos(t, attach, pre=lambda ctx: None)
    w = ctx.w
    try:
        o = holder["o"]
        r = from_world(w, ctx.pop, ctx.nontrivial, ctx.info["extras"])
        r.excused["collision_excused"] = o.collisions
        r.excused["success_reports"] = o.reports
        r.excused["runs_without_success_report"] = 0 if o.reports else 1
        return r
    finally:
        w.close()
