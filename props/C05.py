"""C05 - the destination file equals the write-model of the accepted File Data PDUs, and nothing
else in the filestore changes (refinement against a SparseFile / tree model, judged after every call).
"""
from __future__ import annotations

import os

from cfdpsim.models import SparseFile
from cfdpsim.runner import from_world
from props import insitu, pops
from props.gridpop import grid
from props.monitors import Monitor
from props.synthpop import synthetic

RULE = (
    "synthetic-peer population (70%): a real transfer is driven to a tape-chosen point, then Metadata / File Data (grid and "
    "off-grid offsets, overlaps, duplicates, beyond-EOF, junk bodies) / EOF / ACK / other PDUs, polls, clock advances past "
    "every timer, cancel requests and further put requests are thrown at the handlers, several consecutive transactions on "
    "one destination handler; grid (15%) and chaos (15%) populations with the same oracle; in a third of the runs the "
    "destination filestore rejects write_data / create_file / truncate_file calls (tape-decided); NativeFilestore on a "
    "tmpfs sandbox with decoy files and a decoy sub-directory, or the in-memory filestore; after EVERY handler call the "
    "whole filestore tree (names, types, contents) is compared with the model; non-trivial = at least one File Data PDU "
    "was applied by the model and (synthetic population) one PDU was rejected; distinct = interleaving signature"
)
ASSUMPTIONS = [
    "a File Data PDU counts as accepted iff the File-Segment-Recv indication (forced on) was delivered for it; a Metadata "
    "PDU iff the Metadata-Recv indication was delivered (DESIGN 5, C05)",
    "a File Data PDU whose write_data call was made to fail leaves the file unchanged (fault population only)",
    "the destination file may disappear only in a call that delivers a Transaction-Finished indication with a condition "
    "code other than No Error while disposition-on-cancellation is configured, and not after the same transaction was reported as "
    "delivered completely while the file holds every byte of the source file",
]
BUDGET = {"quick": 30, "thorough": 900}


def _norm(p) -> str:
    return os.path.normpath(str(p))


class TreeOracle(Monitor):
    def __init__(self, ctx):
        w = ctx.w
        self.w = w
        self.tree = dict(w.vfs_a.h_tree())
        self.cur = {}  # (entity, handler) -> resolved destination path of the current transaction
        self.rej_seen = 0
        self.success = {}
        self.applied = 0
        self.md_applied = 0

    def _rejections(self):
        rej = self.w.vfs_b.rejected
        new = rej[self.rej_seen :]
        self.rej_seen = len(rej)
        return new

    def on_call(self, w, rec) -> None:
        c = w.cfg
        new_rej = self._rejections() if rec.ent == "b" else []
        rej_ops = [r[0] for r in new_rej]
        may_delete = None
        lenient = False
        if rec.hk == "dst" and rec.op == "sm":
            key = (rec.ent, rec.hk)
            if rec.pre.state == "IDLE":
                self.success.pop(key, None)  # whatever starts now is a new transaction (a synthetic peer may re-use an id)
            for ind in rec.inds:
                nm = ind[0]
                if nm == "metadata_recv":
                    _, size, src_name, dst_name, _ = ind[2]
                    if dst_name is None or src_name is None:
                        self.cur[key] = None
                        continue
                    p = _norm(dst_name)
                    if ("d", p) in self.tree:
                        p = _norm(os.path.join(p, os.path.basename(src_name)))
                    self.cur[key] = p
                    self.md_applied += 1
                    if ("f", p) in self.tree:
                        if "truncate_file" not in rej_ops:
                            self.tree[("f", p)] = b""
                    elif ("d", p) in self.tree:
                        lenient = True  # destination resolves to a directory: undefined, not generated
                    else:
                        parent = _norm(os.path.dirname(p) or ".")
                        # (a name with a NUL byte cannot exist on the host file system: the native filestore refuses it)
                        if (parent == "." or ("d", parent) in self.tree) and "create_file" not in rej_ops and not (
                            "\x00" in p and c.vfs == "native"
                        ):
                            self.tree[("f", p)] = b""
                elif nm == "file_segment_recv":
                    p = self.cur.get(key)
                    if rec.inb_kind != "FD" or p is None:
                        continue
                    if rec.exc is not None:
                        lenient = True
                        continue
                    if "write_data" in rej_ops:
                        w.probe("C05.write_rejected")
                        continue
                    if ("f", p) not in self.tree:
                        continue
                    off = rec.inb_info[1]
                    data = bytes(rec.inb.file_data)
                    sf = SparseFile()
                    sf.data = bytearray(self.tree[("f", p)])
                    sf.write(off, data)
                    self.tree[("f", p)] = sf.bytes()
                    self.applied += 1
                    w.probe("C05.fd_applied")
                    if off > len(self.tree[("f", p)]) - len(data):
                        pass
                elif nm == "finished":
                    cond = ind[2][0]
                    if cond != 0 and c.dispo:
                        may_delete = self.cur.get(key)
                        # ... of an INCOMPLETE file: the run's own destination file holding every byte of the source file
                        # is complete, whatever the indication says
                        if may_delete == _norm(w.dst_path) and self.tree.get(("f", may_delete)) == w.src_bytes and len(w.src_bytes) > 0 \
                                and self.success.get(key) == ind[1]:
                            may_delete = None
                    elif cond == 0 and ind[2][1] == 0:
                        self.success[key] = ind[1]  # this transaction was reported as delivered completely
        # a File Data PDU handed to a handler that is, by its public step, still receiving file data is accepted (and,
        # by the clauses above, written): silently dropping it is not an option the write model has
        if rec.hk == "dst" and rec.op == "sm" and rec.inb_kind == "FD" and rec.exc is None and rec.pre.step in (
            "RECEIVING_FILE_DATA", "RECV_FILE_DATA_WITH_CHECK_LIMIT_HANDLING", "WAITING_FOR_MISSING_DATA"
        ) and not any(i[0] == "file_segment_recv" for i in rec.inds):
            w.violate("C05.delivered_not_accepted", f"File Data PDU dropped in step {rec.pre.step}->{rec.post.step} mode={c.mode.name[:5]} faults={[f[2] for f in rec.faults]}",
                      f"offset={rec.inb_info[1]} len={rec.inb_info[2]}")
        real = w.vfs_a.h_tree()
        if real == self.tree:
            return
        if lenient:
            w.probe("C05.resync_lenient")
            self.tree = dict(real)
            return
        diffs = []
        for k in sorted(set(real) | set(self.tree)):
            if real.get(k, "<absent>") != self.tree.get(k, "<absent>"):
                diffs.append(k)
        if may_delete is not None and diffs == [("f", may_delete)] and ("f", may_delete) not in real:
            w.probe("C05.deleted_on_cancel")
            self.tree = dict(real)
            return
        curp = self.cur.get((rec.ent, rec.hk)) if rec.hk == "dst" else None
        k0 = diffs[0]
        if k0[1] == curp:
            if k0 not in real:
                what = "destination file deleted"
            elif k0 not in self.tree:
                what = "destination file created without accepted Metadata"
            else:
                what = "destination content differs from write model"
            got, want = real.get(k0), self.tree.get(k0)
            detail = f"path={k0[1]} got_len={None if got is None else len(got)} want_len={None if want is None else len(want)}"
            if got is not None and want is not None:
                n = min(len(got), len(want))
                first = next((i for i in range(n) if got[i] != want[i]), n)
                detail += f" first_diff={first}"
            w.violate("C05.dest_content", f"{what} op={rec.op} in={rec.inb_kind} step={rec.pre.step} mode={c.mode.name[:5]} vfs={c.vfs}", detail)
        else:
            st = "created" if k0 not in self.tree else ("deleted" if k0 not in real else "modified")
            w.violate("C05.other_path", f"{k0[0]}:{k0[1]} {st} by {rec.ent}.{rec.hk} op={rec.op} in={rec.inb_kind} step={rec.pre.step}", f"{len(diffs)} paths differ: {diffs[:4]}")
        self.tree = dict(real)


def attach(ctx):
    w = ctx.w
    t = w.tape
    o = TreeOracle(ctx)
    ctx.info["tree"] = o
    ctx.info.setdefault("extras", {"fs_reject": 0})
    fsmode = t.weighted([4, 1, 1], "C05 fs faults")
    if fsmode and w.fs_fault is None:
        num, den = (1, 6) if fsmode == 1 else (1, 2)
        ex = ctx.info["extras"]

        def decide(op, path, *extra, _t=t):
            if _t.chance(num, den, f"fs reject {op}"):
                ex["fs_reject"] = ex.get("fs_reject", 0) + 1
                if op == "write_data" and _t.choose(2, "exc kind") == 1:
                    return FileNotFoundError(str(path))
                return PermissionError(str(path))
            return None

        w.fs_fault = decide
    return [o]


def run_one(t):
    pop = t.weighted([14, 3, 3], "population")
    force = {"ind_a": 15, "ind_b": 15, "msgs": 0}
    if pop == 0:
        ctx = synthetic(t, attach, force=force, misroute=False, on_inject=lambda ctx, rec, notes: None)
    elif pop == 1:
        ctx = grid(t, attach, force={"ind_a": 15})
    else:
        ctx = pops.chaos(t, attach, force=force)
    w = ctx.w
    try:
        o = ctx.info["tree"]
        nt = o.applied > 0 and (ctx.nontrivial or pop != 0)
        r = from_world(w, ctx.pop, nt, ctx.info.get("extras"))
        return r
    finally:
        w.close()
