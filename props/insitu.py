"""Shared driver for properties decided by in-situ monitors over several populations."""
from __future__ import annotations

from cfdpsim.runner import from_world
from props import pops

POPS = {
    "faultfree": pops.faultfree,
    "bounded_faults": pops.bounded_faults,
    "cancel": pops.cancel,
    "chaos": pops.chaos,
    "silence": pops.silence,
}


def run(t, weights: dict, attach, force=None, post=None):
    names = list(weights)
    name = names[t.weighted([weights[n] for n in names], "population")]
    ctx = POPS[name](t, attach, force=force)
    w = ctx.w
    try:
        for m in w.monitors:
            f = getattr(m, "on_end", None)
            if f:
                f(w)
        if post:
            post(ctx)
        return from_world(w, ctx.pop, ctx.nontrivial, ctx.info.get("extras"))
    finally:
        w.close()
