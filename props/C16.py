"""C16 - all file access goes through the user-supplied virtual filestore.

Every tape is executed twice: over the real NativeFilestore on a tmpfs sandbox and over a purely
in-memory VirtualFilestore whose paths are the same strings but do not exist on the host.
Three observations: (1) audit - no host file-system entry point is reached from handler code
outside a filestore method while a handler API call is running; (2) differential - both executions
produce the same trace; (3) the host sandbox is byte-identical (empty) after the in-memory run.
"""
from __future__ import annotations

from cfdpsim.audit import SyscallAudit
from cfdpsim.runner import from_world
from cfdpsim.stores import host_tree
from cfdpsim.tape import Tape
from cfdpsim.world import Violation
from props import pops

RULE = (
    "fault-free (all pacings, all modes, destination file / directory / pre-existing file), bounded-fault (retransmission) "
    "and cancel (cancel-time checksums, disposition on cancellation) populations, each tape executed over NativeFilestore "
    "and over the in-memory filestore; audit window around every put_request / cancel_request / state_machine / "
    "get_next_packet call; non-trivial = population rule; distinct = interleaving signature of the native run"
)
ASSUMPTIONS = [
    "entry points audited: builtins.open, io.open (pathlib), os.open/stat/lstat/remove/unlink/rename/replace/mkdir/makedirs/"
    "rmdir/listdir/scandir/truncate/access/utime/chmod/link/symlink/readlink/walk/chdir/system (pathlib, shutil and "
    "os.path go through these); an access counts as 'behind the filestore's back' iff the innermost cfdppy frame on "
    "the stack is not in filestore.py (native run) / any access at all (in-memory run)",
    "the user callbacks of the simulator do not touch files in this population",
]
BUDGET = {"quick": 30, "thorough": 900}
POPS = [("faultfree", pops.faultfree, 5), ("bounded_faults", pops.bounded_faults, 3), ("cancel", pops.cancel, 3)]


def _one(t, fn, vfs):
    aud = SyscallAudit()
    holder = {}

    def attach(ctx):
        w = ctx.w
        w.audit = aud
        holder["pre_tree"] = host_tree(".") if vfs == "mem" else None
        # one run in eight names a destination whose parent directories do not exist in the filestore: the transfer
        # is rejected (in both executions alike), and nothing may be created on the host to "help"
        if w.tape.choose(8, "destination parent missing") == 7 and not w.cfg.metadata_only:
            w.dst_req = "inbox/2026/out.bin"
            w.dst_path = "inbox/2026/out.bin"
            w.probe("C16.missing_parent_destination")
        # a quarter of the runs: the application mounts its filestore object on the user AFTER the handlers were built
        # (`user.vfs = ...`): "the virtual filestore object supplied with the user" is the one the user holds now. The old
        # object is wired to a tripwire, so a handler that kept a reference to it shows
        if w.tape.choose(4, "filestore mounted after handler construction") == 3:
            from cfdpsim.stores import FaultyFilestore

            class _Tripwire:
                def __init__(self, who):
                    self.who = who

                def __getattr__(self, name):
                    w.violate("C16.stale_filestore_object", f"{self.who}: {name} called on the filestore object the user no longer holds", "")

                    def refuse(*a, **k):
                        raise FileNotFoundError("stale filestore object")
                    return refuse

            for ent, attr in ((w.a, "vfs_a_user"), (w.b, "vfs_b")):
                old = ent.user.vfs
                new = FaultyFilestore(old.inner, old.decide, old.decide_x)
                new.rejected = old.rejected
                new.rejected_x = old.rejected_x
                old.inner = _Tripwire(ent.name)
                ent.user.vfs = new
                setattr(w, attr, new)
            w.probe("C16.filestore_remounted")
        return []

    ctx = fn(t, attach, force={"vfs": vfs})
    return ctx, aud, holder


def _judge_audit(w, aud, vfs) -> None:
    for (fname, a0, func, file) in aud.records:
        if vfs == "mem":
            w.violate("C16.host_access", f"{fname} from {file}:{func} (in-memory filestore)", f"arg={a0}")
        elif file != "filestore.py":
            w.violate("C16.host_access", f"{fname} from {file}:{func} (behind the native filestore)", f"arg={a0}")
    w.probes["C16.audited_syscalls"] = w.probes.get("C16.audited_syscalls", 0) + aud.calls


def run_one(t):
    i = t.weighted([p[2] for p in POPS], "population")
    name, fn, _ = POPS[i]
    ctx, aud, _ = _one(t, fn, "native")
    w = ctx.w
    try:
        aud.close()
        _judge_audit(w, aud, "native")
        res = from_world(w, ctx.pop, ctx.nontrivial)
        digest1 = w.digest()
        log1 = list(w.log)
    finally:
        w.close()
    t2 = Tape(values=list(t.rec))
    t2.weighted([p[2] for p in POPS], "population")
    ctx2, aud2, holder = _one(t2, fn, "mem")
    w2 = ctx2.w
    try:
        aud2.close()
        _judge_audit(w2, aud2, "mem")
        post_tree = host_tree(".")
        if post_tree != holder["pre_tree"]:
            ks = sorted(set(post_tree) ^ set(holder["pre_tree"])) or sorted(k for k in post_tree if post_tree[k] != holder["pre_tree"].get(k))
            w2.violate("C16.host_tree_changed", f"{ks[:3]}", "")
        for e in w2.internal_errors:
            w2.violate("C16.mem_run_internal_error", f"{e.cls}@{e.func}", e.msg)
        if not w2.violations and w2.digest() != digest1:
            log2 = w2.log
            n = next((k for k, (x, y) in enumerate(zip(log1, log2)) if x != y), min(len(log1), len(log2)))
            x = log1[n] if n < len(log1) else "<end>"
            y = log2[n] if n < len(log2) else "<end>"
            w2.violate("C16.behaviour_differs", f"pop={name} first difference at line {n}", f"native: {x[:160]} | mem: {y[:160]}")
        for v in w2.violations:
            res.violations.append(v)
            res.log.append(f"  [mem run] !! VIOLATION {v.clause} | {v.locus} | {v.detail}")
        res.probes["C16.twin_compared"] = 1
        res.probes["C16.mem_audited_syscalls"] = aud2.calls
        for k, v in w2.probes.items():
            if k.startswith("C16."):
                res.probes[k] = res.probes.get(k, 0) + v
        return res
    finally:
        w2.close()
