"""C14 - declared faults take the effect configured in the fault-handler table."""
from __future__ import annotations

from cfdpsim.runner import from_world
from cfdpsim.synth import Synth
from cfdpsim.world import ACK, UNACK, CK_TYPES, Cfg, World
from props.monitors import Monitor
from props.pops import Ctx, _start

from spacepackets.cfdp import ConditionCode, FaultHandlerCode

RULE = (
    "one scenario per run that provokes a fault condition (positive ACK limit at sender / receiver by silence, NAK limit, "
    "check limit at receiver / sender, checksum failure by bit flip in both modes, file size error by a synthetic EOF / "
    "File Data conflict, filestore rejection by failing create / truncate / write) x handler code in {ignore, cancel, "
    "abandon} set through set_handler for every condition of both entities (drawn per run), at tape-chosen moments; "
    "FaultTableModel judged at every call; non-trivial = at least one fault callback fired; distinct = signature"
)
ASSUMPTIONS = [
    "'invoked once' = at most one callback per (API call, condition), and an ignored limit fault is declared again only "
    "after a further full timer interval (one declaration per expiry)",
    "a fault during an EOF (cancel) / Finished (cancel) exchange leads to abandonment whatever the table says (CFDP 4.11.2.2.3)",
    "the suspension handler code is unimplemented in cfdp-py and not generated; Cancel.request does not go through the table",
    "ignore: the condition never appears in an EOF / Finished PDU or indication of that handler later in the run",
]
BUDGET = {"quick": 30, "thorough": 900}

CONDS = [
    ConditionCode.POSITIVE_ACK_LIMIT_REACHED, ConditionCode.FILESTORE_REJECTION, ConditionCode.FILE_CHECKSUM_FAILURE,
    ConditionCode.FILE_SIZE_ERROR, ConditionCode.NAK_LIMIT_REACHED, ConditionCode.CHECK_LIMIT_REACHED,
]
CODES = [FaultHandlerCode.NOTICE_OF_CANCELLATION, FaultHandlerCode.IGNORE_ERROR, FaultHandlerCode.ABANDON_TRANSACTION]
KIND = {FaultHandlerCode.NOTICE_OF_CANCELLATION: "cancel", FaultHandlerCode.IGNORE_ERROR: "ignore", FaultHandlerCode.ABANDON_TRANSACTION: "abandon"}
BIG = 100000.0


class FaultTableMonitor(Monitor):
    def __init__(self, w, configured):
        # the model is what the user CONFIGURED (not what the table object answers afterwards)
        self.table = dict(configured)
        for ent in (w.a, w.b):
            for c in CONDS:
                got = KIND.get(ent.fh.get_fault_handler(c))
                if got != self.table[(ent.name, int(c))]:
                    w.violate("C14.table_not_kept", f"{ent.name} cond={int(c)} configured={self.table[(ent.name, int(c))]} reads={got}", "")
        self.cancel_phase = {("a", "src"): False, ("b", "dst"): False}
        self.ignored: set = set()
        self.peer_conds: set = set()
        self.pending_cancel: dict = {}
        self.pending_fin: dict = {}
        self.abandoned: set = set()
        self.waiting: dict = {}
        self.callbacks = 0
        self.last_cb: dict = {}
        self.eof_ack_due = None
        c = w.cfg
        # the timer interval behind each limit condition of each handler (ms)
        self.interval = {
            (("a", "src"), int(ConditionCode.POSITIVE_ACK_LIMIT_REACHED)): c.ack_s * 1000,
            (("b", "dst"), int(ConditionCode.POSITIVE_ACK_LIMIT_REACHED)): c.ack_s * 1000,
            (("b", "dst"), int(ConditionCode.NAK_LIMIT_REACHED)): c.nak_s * 1000,
            (("a", "src"), int(ConditionCode.CHECK_LIMIT_REACHED)): c.check_s_send * 1000,
            (("b", "dst"), int(ConditionCode.CHECK_LIMIT_REACHED)): c.check_s_recv * 1000,
        }

    def on_call(self, w, rec) -> None:
        key = (rec.ent, rec.hk)
        if key not in self.cancel_phase:
            return
        c = w.cfg
        eofs = [e for e in rec.emitted if e.kind == "EOF" and e.pdu is not None]
        fins = [e for e in rec.emitted if e.kind == "FIN" and e.pdu is not None]
        fin_inds = [i for i in rec.inds if i[0] == "finished"]
        # --- earlier obligations
        tid = rec.pre.tid or rec.post.tid
        # conditions reported by the peer (EOF (cancel) at the receiver, Finished at the sender) are
        # not this handler's own fault declarations
        if rec.inb_kind in ("EOF", "FIN") and rec.exc is None and rec.inb_info[1] != 0:
            self.peer_conds.add((key, rec.inb_info[1]))
        for e in eofs + fins:
            cond = e.info[1]
            if (key, cond) in self.ignored and (key, cond) not in self.peer_conds:
                w.violate("C14.ignore_but_reported", f"{rec.ent}.{rec.hk} cond={cond} in {e.kind}", "")
        for i in fin_inds:
            if (key, i[2][0]) in self.ignored and (key, i[2][0]) not in self.peer_conds:
                w.violate("C14.ignore_but_reported", f"{rec.ent}.{rec.hk} cond={i[2][0]} in indication", "")
            if (key, i[1]) in self.abandoned:
                w.violate("C14.abandon_but_finished_indication", f"{rec.ent}.{rec.hk}", "")
        seen = {}
        for f in rec.faults:
            kind, ftid, cond, progress = f
            self.callbacks += 1
            seen[cond] = seen.get(cond, 0) + 1
            w.probe(f"C14.cb:{rec.ent}.{rec.hk}:{cond}:{kind}")
            if ftid is None:
                w.violate("C14.tid_none", f"{rec.ent}.{rec.hk} cond={cond}", "")
            elif tid is not None and ftid != tid:
                w.violate("C14.tid", f"{rec.ent}.{rec.hk} cond={cond}", f"{ftid} vs {tid}")
            # "current progress" = the progress when the fault is declared: what it was at call entry, or what the
            # inbound PDU of this call made it; the value after the call only if the call advanced it (a handler that
            # was reset by the fault reports 0 afterwards, which is not the progress of the faulted transaction)
            ok_prog = {rec.pre.progress}
            if rec.post.progress >= rec.pre.progress and rec.post.state != "IDLE":
                ok_prog.add(rec.post.progress)
            if rec.inb_kind == "EOF":
                ok_prog.add(rec.inb_info[2])  # an EOF updates the progress before the fault is declared
            if rec.inb_kind == "FD":
                ok_prog.add(max(rec.pre.progress, rec.inb_info[1] + rec.inb_info[2]))
            if progress not in ok_prog:
                w.violate("C14.progress", f"{rec.ent}.{rec.hk} cond={cond} kind={kind}", f"cb={progress} pre={rec.pre.progress} post={rec.post.progress}")
            want = self.table.get((rec.ent, cond))
            if self.cancel_phase[key] and kind == "abandon":
                w.probe("C14.abandon_in_cancel_exchange")
                if rec.post.state != "IDLE":
                    w.violate("C14.abandon_not_idle", f"{rec.ent}.{rec.hk} cancel exchange", "")
                self.abandoned.add((key, ftid))
                continue
            if want is None:
                w.violate("C14.condition_outside_table", f"{rec.ent}.{rec.hk} cond={cond} kind={kind}", "")
                continue
            if kind != want:
                w.violate("C14.callback_kind", f"{rec.ent}.{rec.hk} cond={cond} configured={want} got={kind}", "")
                continue
            if kind == "ignore":
                self.ignored.add((key, cond))
                # "the transaction then continues (ignore)": an ignored fault declared while an EOF (No Error) PDU is being
                # handled in acknowledged mode does not stop that EOF from being acknowledged
                if rec.hk == "dst" and rec.inb_kind == "EOF" and rec.inb_info[1] == 0 and c.mode == ACK and rec.exc is None \
                        and rec.pre.step in ("RECEIVING_FILE_DATA", "WAITING_FOR_METADATA"):
                    self.eof_ack_due = [cond, 0]
                # "invoked once": a limit fault is declared by a timer expiry; with the ignore handler the transaction
                # continues, so the next declaration needs a further expiry, i.e. a full timer interval
                iv = self.interval.get((key, cond))
                last = self.last_cb.get((key, cond, ftid))
                if iv is not None and last is not None and w.clock.t - last < iv - 2:
                    w.violate("C14.fault_redeclared", f"{rec.ent}.{rec.hk} cond={cond} ignored fault declared again without a further timer expiry",
                              f"{w.clock.t - last} ms after the previous declaration, interval {iv} ms")
                self.last_cb[(key, cond, ftid)] = w.clock.t
            elif kind == "cancel":
                if rec.hk == "src":
                    if not eofs or eofs[-1].info[1] != cond:
                        w.violate("C14.cancel_not_signalled", f"a.src cond={cond} eofs={[e.info[1] for e in eofs]}", "")
                    if c.mode == UNACK and rec.post.state != "IDLE":
                        # unacknowledged mode: nothing is awaited after the EOF (cancel), the transaction is over
                        w.violate("C14.cancel_not_completed", f"a.src cond={cond} still {rec.post.step} after the EOF (cancel) in unacknowledged mode", "")
                else:
                    self.pending_cancel[key] = cond
                    if c.mode == ACK or c.closure:
                        self.pending_fin[key] = cond
                self.cancel_phase[key] = True
            elif kind == "abandon":
                if rec.post.state != "IDLE":
                    w.violate("C14.abandon_not_idle", f"{rec.ent}.{rec.hk} cond={cond} post={rec.post.step}", "")
                for e in eofs + fins:
                    if e.info[1] == cond:
                        w.violate("C14.abandon_but_pdu", f"{rec.ent}.{rec.hk} cond={cond} {e.kind}", "")
                if fin_inds:
                    w.violate("C14.abandon_but_finished_indication", f"{rec.ent}.{rec.hk} cond={cond} same call", "")
                self.abandoned.add((key, ftid))
        ab_conds = {f[2] for f in rec.faults if f[0] == "abandon"}
        if any(f[0] != "abandon" and f[2] in ab_conds for f in rec.faults):
            # "no other callback kind fires for that fault": an abandonment is the whole outcome of the call that declares it
            w.violate("C14.extra_callback_at_abandon", f"{rec.ent}.{rec.hk} callbacks={[(f[0], f[2]) for f in rec.faults]} step={rec.pre.step}", "")
        for cond, n in seen.items():
            if n > 1:
                w.violate("C14.callback_once", f"{rec.ent}.{rec.hk} cond={cond} n={n} step={rec.pre.step} in={rec.inb_kind}", "")
        if self.eof_ack_due is not None and key == ("b", "dst"):
            if any(e.kind == "ACK" for e in rec.emitted) or rec.post.state == "IDLE" or any(f[0] != "ignore" for f in rec.faults):
                self.eof_ack_due = None
            else:
                self.eof_ack_due[1] += 1
                if self.eof_ack_due[1] >= 4:
                    w.violate("C14.ignore_but_stalled", f"b.dst cond={self.eof_ack_due[0]} ignored while handling the EOF PDU, no ACK (EOF) since "
                              f"(step {rec.post.step})", "4 receiver calls later")
                    self.eof_ack_due = None
        if rec.faults and rec.exc is not None and not (
            w.fs_fault is not None and rec.exc.cls in ("FileNotFoundError", "PermissionError")
        ):
            w.violate("C14.fault_call_raises", f"{rec.ent}.{rec.hk} {rec.exc!r} faults={[(f[0], f[2]) for f in rec.faults]}", rec.exc.msg)
        # "the transaction then continues (ignore)": after an ignored fault the handler must go on working, i.e. later
        # calls must not fail with a raw error (unless the simulated filestore was made to fail in that very call)
        if rec.exc is not None and not rec.exc.is_lib and rec.vfs_rejects == 0 and any(k == key for (k, _c) in self.ignored):
            w.violate("C14.raises_after_ignored_fault", f"{rec.ent}.{rec.hk} {rec.exc!r} in={rec.inb_kind} step={rec.pre.step} ignored={sorted(c for (k, c) in self.ignored if k == key)}", rec.exc.msg)
        # --- receiver: a cancel must reach user and peer, and soon (nothing from the peer is needed for it)
        bits = c.ind_a if rec.ent == "a" else c.ind_b
        if key in self.pending_cancel and not (bits & 8) and (fins or rec.post.state == "IDLE"):
            self.pending_cancel.pop(key)  # (indication switched off: the Finished PDU / the idle state show the completion)
        if key in self.pending_cancel and not fin_inds and not rec.faults:
            self.waiting[key] = self.waiting.get(key, 0) + 1
            if self.waiting[key] == 6 and rec.post.state != "IDLE":
                w.violate("C14.cancel_not_completed", f"{rec.ent}.{rec.hk} cond={self.pending_cancel[key]} stuck in {rec.post.step}",
                          "6 calls after the notice of cancellation: no Transaction-Finished indication")
        if key in self.pending_cancel and fin_inds:
            cond = self.pending_cancel.pop(key)
            if fin_inds[0][2][0] != cond:
                w.violate("C14.cancel_not_signalled", f"b.dst indication cond={fin_inds[0][2][0]} want={cond}", "")
        if key in self.pending_fin and fins:
            cond = self.pending_fin.pop(key)
            if fins[0].info[1] != cond:
                w.violate("C14.cancel_not_signalled", f"b.dst Finished cond={fins[0].info[1]} want={cond}", "")
        for e in eofs:
            if e.info[1] != 0 and rec.hk == "src":
                self.cancel_phase[key] = True
        for e in fins:
            if e.info[1] != 0 and rec.hk == "dst":
                self.cancel_phase[key] = True
        if rec.op == "cancel" and rec.ret is True:
            self.cancel_phase[key] = True
        if rec.inb_kind == "EOF" and rec.hk == "dst" and rec.inb_info[1] != 0 and rec.exc is None:
            self.cancel_phase[key] = True


SCENARIOS = ("ack_silence_src", "ack_silence_dst", "nak_limit", "check_dst", "check_src", "checksum_ack", "checksum_unack",
             "size_error", "fs_reject")


def run_one(t):
    sc = SCENARIOS[t.choose(len(SCENARIOS), "scenario")]
    f = {"shell": "history", "metadata_only": False, "poll_ms": [100, 50, 200, 250][t.choose(4, "poll")]}
    if sc in ("ack_silence_src", "ack_silence_dst", "nak_limit", "checksum_ack"):
        f["mode"] = ACK
    elif sc in ("check_dst", "check_src", "checksum_unack"):
        f["mode"] = UNACK
    if sc == "check_src":
        f["closure"] = True
        f["check_s_recv"] = BIG
    if sc in ("checksum_ack", "checksum_unack", "check_dst"):
        f["ck"] = CK_TYPES[t.choose(2, "crc type")]
    if sc in ("checksum_ack", "checksum_unack", "nak_limit", "check_dst", "size_error"):
        f["size_sel"] = [0, 6, 7, 5][t.choose(4, "size")]
    if sc == "nak_limit":
        # incl. maximum packet lengths that hold one or two segment requests per NAK PDU: the sequence is then split
        f["mpl_sel"] = [0, 6, 7, 1][t.choose(4, "nak limit mpl")]
    if sc == "fs_reject":
        # incl. empty files: with nothing to receive, completion is decided in the very call that declares the rejection
        f["size_sel"] = [0, 3, 1, 6][t.choose(4, "size")]
    cfg = Cfg.draw(t, f)
    # the oracle observes completion through the Transaction-Finished indication; in a quarter of the runs the switches stay as
    # drawn (possibly off): completion is then observed through the Finished PDU / the idle state only
    if t.choose(4, "indication switches as drawn") != 3:
        cfg.ind_a |= 8
        cfg.ind_b |= 8
    if cfg.size // max(cfg.eff_seg, 1) > 30:
        cfg.size_sel = 6
        cfg.finish()
    w = World(t, cfg)
    ctx = Ctx(w, sc)
    try:
        # a quarter of the runs: an earlier transaction on the same handlers (default table), cancelled by the sending
        # user in half of the cases
        if t.choose(4, "prelude") == 3:
            from props.pops import prelude

            prelude(w, cancel_after=[None, 2 + t.choose(12, "prelude cancel after")][t.choose(2, "prelude cancelled")],
                    idle_ms=[0, 3000][t.choose(2, "prelude idle")])
        # handler table: drawn for every condition of both entities
        configured = {}
        for ent in (w.a, w.b):
            for cnd in CONDS:
                code = CODES[t.weighted([3, 2, 2], f"code {ent.name} {int(cnd)}")]
                # the documented default (cancel; ignore for checksum failures) is sometimes left untouched, so that
                # "one entity's configuration does not reach the other's defaults" is observable
                default = FaultHandlerCode.IGNORE_ERROR if cnd == ConditionCode.FILE_CHECKSUM_FAILURE else FaultHandlerCode.NOTICE_OF_CANCELLATION
                if t.choose(3, "leave default") == 2:
                    code = default
                else:
                    ent.fh.set_handler(cnd, code)
                configured[(ent.name, int(cnd))] = KIND[code]
        for bad in (ConditionCode.NO_ERROR, ConditionCode.SUSPEND_REQUEST_RECEIVED):
            try:
                w.a.fh.set_handler(bad, FaultHandlerCode.IGNORE_ERROR)
                w.violate("C14.set_handler_outside_table", f"cond={int(bad)} accepted", "")
            except ValueError:
                pass
        mon = FaultTableMonitor(w, configured)
        w.monitors.append(mon)
        # a quarter of the runs: the sending user cancels the transaction at a tape-chosen call (Cancel.request does not go
        # through the fault handler table: no callback of any kind may fire for it)
        if t.choose(4, "user cancel") == 3:
            from props.pops import CancelTrigger

            w.monitors.append(CancelTrigger(ctx, [(1 + t.choose(20, "user cancel after call"), 0, False)]))
        unit = int(max(cfg.ack_s, cfg.nak_s, min(cfg.check_s_recv, 10), min(cfg.check_s_send, 10)) * 1000)
        if sc in ("ack_silence_src", "ack_silence_dst", "nak_limit"):
            kind = {"ack_silence_src": "EOF", "ack_silence_dst": "FIN", "nak_limit": "EOF"}[sc]
            cut = {"ack_silence_src": "b", "ack_silence_dst": "a", "nak_limit": "a"}[sc]
            if sc == "nak_limit":
                w.link.enabled = {"drop"}
                w.link.rate = (1, 3)
                w.link.budget = 1 + t.choose(5, "drops")
            state = {"done": False}

            class Cut(Monitor):
                def on_call(self, w2, rec):
                    if not state["done"] and any(e.kind == kind for e in rec.emitted):
                        state["done"] = True

                        def cutfn(w3):
                            w3.link.partition[cut] = True
                            w3.log.append(f"  SILENCE {cut}")
                        w2.push(w2.clock.t, ("fn", cutfn))

            w.monitors.append(Cut())
        elif sc == "check_dst":
            hold = t.choose(max((cfg.size + cfg.eff_seg - 1) // cfg.eff_seg, 1), "hold tile")

            def hook(src_ent, dst, em, key):
                if key == "a>b FD" and em.info[1] // cfg.eff_seg == hold:
                    return ("drop",)
                return None
            w.link.hook = hook
        elif sc == "check_src":
            def hook(src_ent, dst, em, key):
                if key == "b>a FIN":
                    return ("drop",)
                return None
            w.link.hook = hook
        elif sc in ("checksum_ack", "checksum_unack"):
            w.link.enabled = {"corrupt"}
            w.link.rate = (1, 2)
            w.link.budget = 1 + t.choose(2, "flips")
        elif sc == "fs_reject":
            # (last variant: the destination file vanishes - calculate_checksum raises FileNotFoundError)
            ops = [("write_data",), ("create_file", "truncate_file"), ("write_data", "create_file", "truncate_file"),
                   ("calculate_checksum",)][t.choose(4, "fs ops")]
            if t.choose(3, "lose first metadata") == 2:
                # the rejection then hits the RE-REQUESTED Metadata PDU (acknowledged mode), possibly after the EOF
                lost = {"n": 0}

                def md_hook(src_ent, dst, em, key):
                    if key == "a>b MD" and lost["n"] == 0:
                        lost["n"] = 1
                        return ("drop",)
                    return None
                w.link.hook = md_hook
            first = {"n": t.choose(4, "reject from nth")}

            def decide(op, path, *extra):
                if op in ops:
                    if first["n"] > 0:
                        first["n"] -= 1
                        return None
                    if t.chance(1, 2, f"fs reject {op}"):
                        return PermissionError(str(path))
                return None
            w.fs_fault = decide
            if ops == ("calculate_checksum",):
                def decide_x(who, op, path, *extra):
                    if who == "b" and op == "calculate_checksum":
                        if first["n"] > 1:
                            first["n"] -= 1
                            return None
                        w.link.fired["dst_file_vanished"] = w.link.fired.get("dst_file_vanished", 0) + 1
                        return FileNotFoundError(str(path))
                    return None
                w.fs_fault_x = decide_x
        # timer / PDU arrival races: in a fifth of the runs both entities run a main loop with a period around the timer
        # intervals (awaited PDUs are handed over in the call that also finds the timer expired)
        if t.choose(5, "ticked pacing") == 4:
            from props.pops import ticked_pacing

            ticked_pacing(w, t, intervals=[x for x in (cfg.ack_s, cfg.nak_s, cfg.check_s_recv, cfg.check_s_send) if x < 50])
            unit += 2 * w.tick_ms
        w.max_events = 20000
        w.max_t = 10_000_000
        _start(ctx, None)
        if sc == "size_error":
            # real transfer up to a tape-chosen point, then a conflicting EOF / File Data from a synthetic peer
            syn = Synth(w, perturb=0)
            for _ in range(4 + t.choose(10 + 2 * (cfg.size // max(cfg.eff_seg, 1)), "prefix")):
                w.step()
            from props.synthpop import live_seq
            from spacepackets.cfdp.pdu import EofPdu, FileDataPdu
            from spacepackets.cfdp.pdu.file_data import FileDataParams
            from cfdpsim.models import ref_checksum

            conf, _, _ = syn.conf(t, "EOF", live_seq(w), pert=False)
            small = max(cfg.size - cfg.eff_seg - t.choose(3, "eof short"), 0)
            eof = EofPdu(conf, ref_checksum(int(cfg.ck), w.src_bytes[:small]), small)
            w.deliver(w.b, bytes(eof.pack()))
            if t.choose(2, "late fd"):
                fd = FileDataPdu(conf, FileDataParams(file_data=b"\x55" * cfg.eff_seg, offset=cfg.size, segment_metadata=None))
                w.deliver(w.b, bytes(fd.pack()))
        bound = w.clock.t + 12 * unit + 4000  # counted from now (a prelude transaction may have taken time)

        def until(w2):
            return w2.clock.t > bound

        w.run(until=until)
        return from_world(w, ctx.pop, mon.callbacks > 0)
    finally:
        w.close()
