"""C15 - user indications are faithful, causally ordered and gated by configuration (in-situ)."""
from __future__ import annotations

from props import insitu
from props.monitors import IndicationMonitor

RULE = (
    "IndicationMonitor on every handler call of the fault-free (strict order clauses), bounded-fault, cancel and chaos "
    "populations; the four implemented indication switches per entity (2^4 x 2^4) and five message-to-user variants "
    "(none, plain, originating id, proxy put response + originating id, proxy put request) are drawn per run; "
    "non-trivial = population rule and at least one switch off or a message list present"
)
ASSUMPTIONS = [
    "'causal order' = an enabled indication occurs in the API call that accepted / emitted its PDU; the strict order of "
    "the statement is demanded on the in-order fault-free population only",
    "no-event-without-indication is demanded only for events unambiguous from outside (DESIGN 5, C15)",
]
BUDGET = {"quick": 25, "thorough": 600}


def attach(ctx):
    strict = ctx.pop == "faultfree"
    return [IndicationMonitor(ctx.w, strict_order=strict, msgs_expect_oid=ctx.oid, msgs=ctx.info.get("msgs"))]


def post(ctx):
    c = ctx.w.cfg
    ctx.nontrivial = ctx.nontrivial and (c.ind_a != 15 or c.ind_b != 15 or c.msgs != 0)


def run_one(t):
    if t.weighted([6, 1], "population group") == 1:
        # the synthetic peer: PDUs of every kind with perturbed ids / sequence numbers reach busy handlers (plain shell)
        from cfdpsim.runner import from_world
        from props.synthpop import synthetic

        ctx = synthetic(t, attach, force={"msgs": 0}, misroute=False, on_inject=lambda ctx, rec, notes: None)
        w = ctx.w
        try:
            for m in w.monitors:
                f = getattr(m, "on_end", None)
                if f:
                    f(w)
            post(ctx)
            return from_world(w, ctx.pop, ctx.nontrivial)
        finally:
            w.close()
    return insitu.run(t, {"faultfree": 5, "bounded_faults": 2, "cancel": 2, "chaos": 2, "silence": 2}, attach, post=post)
