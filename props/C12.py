"""C12 - cancellation takes effect immediately and is signalled correctly."""
from __future__ import annotations

from cfdpsim.models import ref_checksum
from cfdpsim.runner import from_world
from cfdpsim.world import ACK
from props import pops
from props.monitors import Monitor

RULE = (
    "cancel population: transfers in both modes (perfect link or <= 2 link faults) with 0..2 cancel requests (right / wrong "
    "transaction id, at most one right-id cancel per handler) injected after a tape-chosen handler call of the run, on "
    "either side, closure and disposition-on-cancellation drawn per run; clauses (a)-(e) of DESIGN 5 C12; non-trivial = "
    "a right-id cancel was accepted; distinct = interleaving signature"
)
ASSUMPTIONS = [
    "(b) is not judged when the sender had already started an EOF (cancel) exchange itself (limit fault): a cancel request "
    "then abandons the transaction (CFDP 4.11.2.2.3)",
    "(d) binds only an EOF (cancel) accepted while the receiver is busy with that transaction and has not yet delivered its "
    "Transaction-Finished indication",
    "(e) incompleteness is judged by comparing destination and source bytes at that moment, not by the handler's delivery code",
]
BUDGET = {"quick": 25, "thorough": 600}
CANCEL_REQ = 15


class CancelOracle(Monitor):
    def __init__(self, ctx):
        self.w = ctx.w
        self.src_cancel_eof = False  # sender already emitted an EOF with a fault condition
        self.src_cancel_at = None  # progress at the accepted user cancel
        self.src_cancelled = False
        self.dst_cancel_pending = False  # receiver-side user cancel accepted, indication not yet seen
        self.dst_fin_pending = False
        self.dst_finished_delivered = False
        self.eof_cancel_pending = None  # (cond, ) of an accepted EOF (cancel)
        self.eof_cancel_fin_pending = None
        self.accepted = 0
        self.deleted_by_handler = False
        ctx.w.user_hooks_b.append(self._hook_b)
        self.file_existed_before_ind = None
        self.must_finish = None  # [what, calls since] - the receiver has everything it needs to finish

    def _hook_b(self, ent, item):
        pass

    # (a), and arming of (b) / (c)
    def on_cancel(self, w, rec, side, wrong, tid) -> None:
        pre = rec.pre
        want = pre.busy and pre.tid is not None and pre.tid == tid
        if rec.exc is not None:
            w.violate("C12.a_cancel_raises", f"side={'src' if side == 0 else 'dst'} {rec.exc!r} step={pre.step}", "")
            return
        if rec.ret is not want:
            w.violate("C12.a_return_value", f"side={'src' if side == 0 else 'dst'} ret={rec.ret} want={want} step={pre.step} wrong_id={wrong}", "")
        if rec.ret is not True:
            if rec.emitted or rec.pre.key() != rec.post.key():
                w.violate("C12.a_refused_cancel_changes_state", f"side={'src' if side == 0 else 'dst'} step={pre.step}", "")
            return
        self.accepted += 1
        c = w.cfg
        if side == 0:
            w.probe(f"C12.src_cancel_at:{pre.step}")
            if self.src_cancel_eof:
                w.probe("C12.b_not_judged_cancel_exchange_running")
                return
            self.src_cancelled = True
            self.src_cancel_at = pre.progress
            # (b) the next PDU emitted is the EOF (cancel): it is queued by the call itself
            if not rec.emitted:
                w.violate("C12.b_no_eof", f"step={pre.step}", "")
                return
            e = rec.emitted[0]
            if e.kind != "EOF":
                w.violate("C12.b_next_pdu_not_eof", f"kind={e.kind} step={pre.step}", "")
                return
            cond, size, ck = e.info[1], e.info[2], e.info[3]
            if cond != CANCEL_REQ:
                w.violate("C12.b_eof_condition", f"cond={cond} step={pre.step}", "")
            if size != pre.progress:
                w.violate("C12.b_eof_size", f"size={size} progress={pre.progress} step={pre.step}", "")
            elif not c.metadata_only and ck != ref_checksum(int(c.ck), w.src_bytes[:size]).hex():
                w.violate("C12.b_eof_checksum", f"ck={c.ck.name} prefix={size < len(w.src_bytes)} step={pre.step}", "")
            if len(rec.emitted) > 1:
                w.violate("C12.b_extra_pdus", f"{[x.kind for x in rec.emitted]}", "")
            from cfdpsim.world import UNACK as _UNACK

            if c.mode == _UNACK and rec.post.state != "IDLE":
                # unacknowledged mode: nothing is awaited after the EOF (cancel), the transaction is over at once
                w.violate("C12.b_sender_not_finished", f"still {rec.post.step} after the EOF (cancel) in unacknowledged mode (request mode "
                          f"{c.req_mode}, MIB default {c.mib_mode})", "")
        else:
            w.probe(f"C12.dst_cancel_at:{pre.step}")
            self.cancel_seen = True
            self.dst_cancel_pending = True
            self.must_finish = [f"cancel request at {pre.step}", 0]
            self.dst_fin_pending = c.mode == ACK or c.closure
            self.eof_cancel_pending = None  # the local cancel supersedes
            self.eof_cancel_fin_pending = None

    def on_call(self, w, rec) -> None:
        c = w.cfg
        if rec.ent == "a" and rec.hk == "src":
            for e in rec.emitted:
                if e.kind == "EOF" and e.info[1] != 0 and rec.op != "cancel":
                    self.src_cancel_eof = True
                if e.kind == "FD" and self.src_cancel_at is not None:
                    end = e.info[1] + e.info[2]
                    if end > self.src_cancel_at:
                        w.violate("C12.b_new_data_after_cancel", f"end={end} cancel_progress={self.src_cancel_at}", "")
            return
        if rec.ent != "b" or rec.hk != "dst":
            return
        fin_inds = [i for i in rec.inds if i[0] == "finished"]
        fins = [e for e in rec.emitted if e.kind == "FIN" and e.pdu is not None]
        # (d) arm: EOF (cancel) accepted while busy and before the Transaction-Finished indication
        if (
            rec.inb_kind == "EOF" and rec.inb_info[1] != 0 and rec.exc is None and rec.pre.busy
            and rec.pre.tid == (rec.inb.source_entity_id.value, rec.inb.transaction_seq_num.value)
            and not self.dst_finished_delivered and not self.dst_cancel_pending
            and rec.pre.step not in ("WAITING_FOR_FINISHED_ACK", "SENDING_FINISHED_PDU")
        ):
            w.probe(f"C12.eof_cancel_at:{rec.pre.step}")
            self.cancel_seen = True
            self.eof_cancel_pending = (rec.inb_info[1], rec.pre.step)
            if self.must_finish is None:
                self.must_finish = [f"EOF (cancel) at {rec.pre.step}", -1]
            self.eof_cancel_fin_pending = (rec.inb_info[1], rec.pre.step) if (c.mode == ACK or c.closure) else None
        # "finishes the transaction": neither a cancel request nor an accepted EOF (cancel) leaves the
        # receiver waiting for anything from the peer, so the completion is due within a few calls
        if self.must_finish is not None:
            if fin_inds or fins or rec.post.state == "IDLE":
                self.must_finish = None
            else:
                self.must_finish[1] += 1
                if self.must_finish[1] >= 6:
                    w.violate("C12.does_not_finish", f"{self.must_finish[0]} mode={c.mode.name[:5]} stuck in {rec.post.step}",
                              f"{self.must_finish[1]} receiver calls later: no Transaction-Finished, no Finished PDU, not idle")
                    self.must_finish = None
        if fin_inds:
            fi = fin_inds[0]
            cond = fi[2][0]
            if self.dst_cancel_pending:
                self.dst_cancel_pending = False
                if cond != CANCEL_REQ:
                    w.violate("C12.c_indication_condition", f"cond={cond}", "")
            elif self.eof_cancel_pending is not None:
                want, step = self.eof_cancel_pending
                self.eof_cancel_pending = None
                if cond != want:
                    w.violate("C12.d_indication_condition", f"eof_cond={want} ind_cond={cond} eof_at={step}", "")
            self.dst_finished_delivered = True
            # (e) disposition
            got = w.dst_bytes()
            if cond == 0 and fi[2][1] == 0:
                self.success_reported = True
            if cond != 0 and got is None and self.complete_before and self.success_reported and len(w.src_bytes) > 0:
                # "an incomplete file is deleted": a file that was complete, and reported as delivered, is not incomplete
                w.violate("C12.e_complete_file_deleted", f"cond={cond} delivery={fi[2][1]} status={fi[2][2]} dispo={c.dispo} step={rec.pre.step}", "")
            if cond != 0:
                if c.dispo and not c.metadata_only and self.md_accepted:
                    if got is not None and got != w.src_bytes:
                        w.violate("C12.e_incomplete_file_kept", f"cond={cond} delivery={fi[2][1]} status={fi[2][2]}", f"len={len(got)} want={len(w.src_bytes)}")
                    elif got is None:
                        w.probe("C12.e_deleted")
        self.complete_before = (not c.metadata_only) and w.dst_bytes() == w.src_bytes
        # (e) also without the Transaction-Finished indication (it may be switched off): the cancelled transaction is over when
        # the Finished (cancel) PDU goes out or the handler turns idle
        if not fin_inds and not (c.ind_b & 8) and not self.e_judged and (
            any(e.info[1] != 0 for e in fins) or (rec.pre.busy and rec.post.state == "IDLE" and (self.cancel_seen or self.dst_cancel_pending))
        ):
            self.e_judged = True
            got = w.dst_bytes()
            if c.dispo and not c.metadata_only and self.md_accepted and got is not None and got != w.src_bytes:
                w.violate("C12.e_incomplete_file_kept", f"(no indication configured) step={rec.pre.step}->{rec.post.step}", f"len={len(got)} want={len(w.src_bytes)}")
        if not c.dispo and not c.metadata_only and self.md_accepted and w.dst_bytes() is None:
            w.violate("C12.e_deleted_without_disposition", f"step={rec.pre.step}->{rec.post.step}", "")
        if rec.inb_kind == "MD" and any(i[0] == "metadata_recv" for i in rec.inds) and w.dst_bytes() is not None:
            # accepted = the Metadata-Recv indication was delivered (a Metadata PDU that arrives in a step which
            # ignores it binds nothing; a file of that name may have existed before the transaction)
            self.md_accepted = True
        if fins:
            self.dst_finished_delivered = True  # completion is also visible through the Finished PDU
            f = fins[0]
            cond, floc = f.info[1], f.info[4]
            if self.dst_fin_pending:
                self.dst_fin_pending = False
                if cond != CANCEL_REQ or floc != 2:
                    w.violate("C12.c_finished_pdu", f"cond={cond} fault_location={floc}", "")
            elif self.eof_cancel_fin_pending is not None:
                want, step = self.eof_cancel_fin_pending
                self.eof_cancel_fin_pending = None
                if cond != want or floc != 1:
                    w.violate("C12.d_finished_pdu", f"eof_cond={want} cond={cond} fault_location={floc} eof_at={step}", "")

    md_accepted = False
    complete_before = False
    success_reported = False
    e_judged = False
    cancel_seen = False

    def on_end(self, w) -> None:
        pass


def _lazy_user_epilogue(w, t) -> None:
    """(a) once more, for a user who does not fetch the PDUs between two requests: an accepted cancel request in
    unacknowledged mode ends the transaction at once (the EOF (cancel) stays queued in the idle handler); a second cancel
    request then names no active transaction and has to be answered with False."""
    if t.choose(4, "lazy user epilogue") != 3 or w.violations or w.cfg.metadata_only:
        return
    from pathlib import Path

    from cfdpsim.world import UNACK

    a = w.a
    h = a.handlers["src"]
    if h.states.state.name != "IDLE" or h.states.packets_ready:
        return
    # the oracle of the run's own transaction does not follow a second one
    w.monitors[:] = [m for m in w.monitors if not isinstance(m, (CancelOracle, pops.CancelTrigger))]
    req = w.put_request_obj()
    req.trans_mode = UNACK
    req.dest_file = Path("dst/epilogue.bin")
    rec = w.call(a, "src", "put", arg=req)
    if rec.exc is not None or rec.ret is not True:
        return
    epi = []
    for _ in range(1 + t.choose(4, "epilogue calls")):
        epi.append(w.poll(a, "src"))
    tid = h.transaction_id
    if tid is None or h.states.state.name != "BUSY":
        return
    variant = t.choose(3, "epilogue variant")
    if variant == 2:
        # (b) for a user who submits the next put request right after the accepted cancel (the handler is idle at once in
        # unacknowledged mode) and fetches PDUs for as long as `packets_ready` says so: the EOF (cancel) is still the next
        # PDU handed out, so the public packet counter must not hide it
        a.nodrain = True
        rc = w.call(a, "src", "cancel", arg=tid)
        if rc.exc is not None or rc.ret is not True or rc.post.state != "IDLE" or not h.packets_ready:
            a.nodrain = False
            while h.get_next_packet() is not None:
                pass
            a.drained["src"] = True
            return
        req2 = w.put_request_obj()
        req2.trans_mode = UNACK
        req2.dest_file = Path("dst/epilogue2.bin")
        rp = w.call(a, "src", "put", arg=req2)
        a.nodrain = False
        w.probe("C12.lazy_user_put_after_cancel")
        ready, n = h.packets_ready, h.num_packets_ready
        first = h.get_next_packet()
        if rp.exc is None and rp.ret is True:
            if first is None:
                w.violate("C12.b_no_eof", "EOF (cancel) gone after the next put request was accepted", "")
            else:
                from cfdpsim.world import pdu_info, pdu_kind
                inf = pdu_info(first.pdu)
                if pdu_kind(first.pdu) != "EOF" or inf[1] != CANCEL_REQ:
                    w.violate("C12.b_next_pdu_not_eof", f"kind={pdu_kind(first.pdu)} after cancel + put", "")
                if not ready:
                    w.violate("C12.b_eof_hidden", f"packets_ready={ready} num_packets_ready={n} although the EOF (cancel) is queued "
                              "(a user who fetches while packets_ready is true never sends it)", "")
        while h.get_next_packet() is not None:
            pass
        if h.num_packets_ready != 0:
            w.violate("C12.b_eof_hidden", f"num_packets_ready={h.num_packets_ready} with an empty queue after cancel + put", "")
        a.drained["src"] = True
        return
    if variant == 1:
        # (b) for the same kind of user: the state machine has generated a PDU that the user has not fetched yet when the
        # cancel request is made. Either the request is refused with the documented UnretrievedPdusToBeSent and changes
        # nothing, or it is accepted - then the EOF (cancel) must describe the file bytes that were really SENT
        sent = 0
        for r in epi:
            for e in r.emitted:
                if e.kind == "FD":
                    sent = max(sent, e.info[1] + e.info[2])
        a.nodrain = True
        rp = w.poll(a, "src")
        queued = h.states.packets_ready
        rc = w.call(a, "src", "cancel", arg=tid)
        a.nodrain = False
        w.probe("C12.lazy_user_cancel_with_unfetched_pdu" if queued else "C12.lazy_user_cancel_nothing_queued")
        if rc.exc is not None:
            if not (queued and rc.exc.cls == "UnretrievedPdusToBeSent"):
                w.violate("C12.a_cancel_raises", f"side=src {rc.exc!r} queued={queued}", "")
            elif rc.pre.key() != rc.post.key():
                w.violate("C12.a_refused_cancel_changes_state", f"side=src step={rc.pre.step}->{rc.post.step}", "")
            # fetch what was left, then the request goes through
            while h.get_next_packet() is not None:
                pass
            a.drained["src"] = True
            return
        want = rc.pre.busy and rc.pre.tid is not None and rc.pre.tid == (tid.source_id.value, tid.seq_num.value)
        if rc.ret is not want:
            w.violate("C12.a_return_value", f"side=src ret={rc.ret} want={want} queued={queued}", "")
        if rc.ret is not True:
            while h.get_next_packet() is not None:
                pass
            a.drained["src"] = True
            return
        # accepted although PDUs were queued: everything the handler hands out from now on is judged
        out = []
        while True:
            ph = h.get_next_packet()
            if ph is None:
                break
            out.append(ph)
        a.drained["src"] = True
        for ph in out:
            pdu = ph.pdu
            from cfdpsim.world import pdu_info, pdu_kind
            k = pdu_kind(pdu)
            inf = pdu_info(pdu)
            if k == "FD":
                sent = max(sent, inf[1] + inf[2])
            elif k == "EOF":
                if inf[1] != CANCEL_REQ:
                    w.violate("C12.b_eof_condition", f"cond={inf[1]} (lazy user)", "")
                if inf[2] != sent:
                    w.violate("C12.b_eof_size", f"size={inf[2]} bytes handed out={sent} (cancel request while a PDU was not fetched yet)", "")
                elif inf[3] != ref_checksum(int(w.cfg.ck), w.src_bytes[:sent]).hex():
                    w.violate("C12.b_eof_checksum", f"prefix={sent} (lazy user)", "")
                break
        return
    a.nodrain = True
    r1 = w.call(a, "src", "cancel", arg=tid)
    a.nodrain = False
    if r1.exc is not None or r1.ret is not True or r1.post.state != "IDLE":
        w.call(a, "src", "cancel", arg=tid)  # (fetches what was left)
        return
    w.probe("C12.lazy_user_second_cancel")
    r2 = w.call(a, "src", "cancel", arg=tid)
    if r2.exc is not None:
        w.violate("C12.a_cancel_raises", f"side=src {r2.exc!r} handler idle (transaction ended by the accepted cancel, EOF (cancel) not fetched yet)", "")
    elif r2.ret is not False:
        w.violate("C12.a_return_value", f"side=src ret={r2.ret} want=False handler idle, EOF (cancel) not fetched yet", "")


def run_one(t):
    holder = {}

    def attach(ctx):
        o = CancelOracle(ctx)
        holder["o"] = o
        return [o]

    ctx = pops.cancel(t, attach)
    w = ctx.w
    try:
        _lazy_user_epilogue(w, t)
        return from_world(w, ctx.pop, holder["o"].accepted > 0)
    finally:
        w.close()
