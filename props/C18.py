"""C18 - lost-segment bookkeeping refines an exact interval set (decided in situ).

The four public methods of LostSegmentTracker are wrapped by the harness with a shadow IntervalSet.
The operation histories are the ones the destination handler produces under simulated arrival
histories and fault schedules: the grid population (scripted sender, loss / duplication /
displacement, NAK rounds), acknowledged transfers between the two real handlers with bounded and
unbounded link faults, and the synthetic peer (off-grid offsets and overlaps)."""
from __future__ import annotations

from cfdpsim.runner import from_world
from cfdpsim.world import ACK
from props import insitu
from props.gridpop import grid
from props.monitors import TrackerShadow
from props.synthpop import synthetic

RULE = (
    "every add / remove / coalesce / reset the destination handler issues on its LostSegmentTracker in the grid (36%), "
    "bounded-fault (16%), chaos (8%) and synthetic-peer (20%) populations, acknowledged mode, plus (20%) tape-drawn "
    "operation histories issued directly on a tracker object over offsets 0..N (N in 6..40, 4..31 operations, mostly inside "
    "the preconditions) - histories the handler never produces; an operation is judged iff "
    "it satisfies the property's preconditions (addition non-empty and disjoint from what is tracked; removal empty, inside "
    "one tracked range, touching none, or straddling the end of a range), otherwise it is counted (probe "
    "*_outside_preconditions) and the shadow is re-synchronised; non-trivial = population rule and at least one judged "
    "operation; distinct = interleaving signature. NOT reached: the 'exhaustive for small N and depth' part of the "
    "quantifier (DESIGN section 6)"
)
ASSUMPTIONS = [
    "the handler ignores the return value of remove_lost_segment; the wrapper judges it nevertheless",
    "operations outside the preconditions (overlapping additions on the missing-metadata path) are not judged",
]
BUDGET = {"quick": 25, "thorough": 600}


def attach(ctx):
    return [TrackerShadow(ctx.w)]


def _finish(ctx):
    w = ctx.w
    try:
        for m in w.monitors:
            f = getattr(m, "on_end", None)
            if f:
                f(w)
        judged = sum(v for k, v in w.probes.items() if k.startswith("C18.") and "judged" in k)
        return from_world(w, ctx.pop, ctx.nontrivial and judged > 0, ctx.info.get("extras"))
    finally:
        TrackerShadow.active = None
        w.close()


def direct(t):
    """Operation histories issued directly on a LostSegmentTracker object (no handler, no schedule): the
    destination handler only ever produces a sub-language of the histories the property quantifies over (it
    never adds a range into a hole it has removed, never removes ahead of every tracked range, ...). The tape
    draws add / remove / coalesce / reset operations over offsets 0..N, mostly inside the preconditions; the
    same wrapper and shadow judge them."""
    from cfdpsim import env
    from cfdpsim.runner import RunResult
    from cfdpsim.world import Violation, hash_sig
    import hashlib

    from cfdppy.handler.dest import LostSegmentTracker

    class W:  # the minimum of a world the monitor needs
        def __init__(self):
            self.violations, self.probes, self.log = [], {}, []

        def violate(self, clause, locus, detail=""):
            self.violations.append(Violation(clause, locus, detail))
            self.log.append(f"  !! VIOLATION {clause} | {locus} | {detail}")

        def probe(self, n, k=1):
            self.probes[n] = self.probes.get(n, 0) + k

    w = W()
    mon = TrackerShadow(w)
    try:
        # two tracker objects alive at the same time, operations interleaved (two destination handlers in one process)
        trackers = [LostSegmentTracker(), LostSegmentTracker()]
        two = t.choose(2, "two trackers") == 1
        N = [12, 6, 24, 40][t.choose(4, "N")]
        n_ops = 4 + t.choose(28, "n ops")
        sig = []
        if t.choose(10, "many ranges") == 9:
            # scale: several hundred separate ranges tracked at once (every second unit of a long file lost), then the
            # ordinary operation history on top of them
            k_many = [300, 520][t.choose(2, "how many ranges")]
            for j in range(k_many):
                trackers[0].add_lost_segment((2 * j + 50, 2 * j + 51))
            w.probe("C18.many_ranges")
            w.log.append(f"# {k_many} ranges added to T0: {len(trackers[0].lost_segments)} tracked")
            N = 2 * k_many + 60
        for i in range(n_ops):
            tr = trackers[t.choose(2, "which tracker") if two else 0]
            op = t.weighted([6, 6, 2, 1], "op")
            items = list(tr.lost_segments.items())
            if op == 0:
                # addition: mostly into free space (precondition), sometimes anywhere
                a = t.choose(N, "add a")
                b = a + 1 + t.choose(max(N // 3, 1), "add len")
                if t.choose(4, "add anywhere") != 3:
                    free = True
                    for (x, y) in items:
                        if x < b and a < y:
                            free = False
                    if not free:
                        # move into the first gap that fits, if any
                        edges = [0] + [v for xy in sorted(items) for v in xy] + [N + N // 3 + 2]
                        gaps = [(edges[j], edges[j + 1]) for j in range(0, len(edges), 2) if edges[j + 1] - edges[j] >= 1]
                        if not gaps:
                            continue
                        g = gaps[t.choose(len(gaps), "gap")]
                        a = g[0] + t.choose(g[1] - g[0], "gap a")
                        b = a + 1 + t.choose(g[1] - a, "gap len")
                        b = min(b, g[1])
                desc = f"add({a},{b})"
                try:
                    tr.add_lost_segment((a, b))
                except Exception as e:  # noqa: BLE001
                    w.violate("C18.exception", f"add raises {type(e).__name__}", desc)
            elif op == 1:
                form = t.weighted([5, 2, 2, 1, 1], "remove form")
                if form == 0 and items:
                    x, y = items[t.choose(len(items), "in range")]
                    a = x + t.choose(y - x, "ra")
                    b = a + 1 + t.choose(y - a, "rlen")
                    b = min(b, y)
                elif form == 2 and items:
                    x, y = items[t.choose(len(items), "straddle range")]
                    a = x + t.choose(y - x, "sa")
                    b = y + 1 + t.choose(3, "sover")
                elif form == 3:
                    a = t.choose(N, "za")
                    b = a
                else:
                    a = t.choose(N + 4, "ra any")
                    b = a + 1 + t.choose(max(N // 3, 1), "rlen any")
                desc = f"remove({a},{b})"
                try:
                    tr.remove_lost_segment((a, b))
                except ValueError:
                    desc += " ValueError"
                except Exception as e:  # noqa: BLE001
                    pass
            elif op == 2:
                desc = "coalesce"
                tr.coalesce_lost_segments()
            else:
                desc = "reset"
                tr.reset()
            sig.append(desc.split("(")[0])
            w.log.append(f"#{i} T{trackers.index(tr)} {desc} -> {list(tr.lost_segments.items())}")
        r = RunResult()
        r.violations = w.violations
        judged = sum(v for k, v in w.probes.items() if "judged" in k)
        r.nontrivial = judged >= 4
        r.sig = hash_sig(w.log)
        r.nstates = len(set(sig))
        r.probes = w.probes
        r.probes["C18.direct_history"] = 1
        r.events = n_ops
        r.calls = n_ops
        r.log = w.log
        r.digest = hashlib.sha256("\n".join(w.log).encode()).hexdigest()[:16]
        r.cfg = {"N": N, "ops": n_ops}
        r.pop = "direct"
        return r
    finally:
        TrackerShadow.active = None


def run_one(t):
    pop = t.weighted([9, 4, 2, 5, 5], "population")
    if pop == 4:
        return direct(t)
    if pop == 0:
        return _finish(grid(t, attach))
    if pop == 3:
        return _finish(synthetic(t, attach, force={"msgs": 0, "mode": ACK}))
    name = ["bounded_faults", "chaos"][pop - 1]
    ctx = insitu.POPS[name](t, attach, force={"mode": ACK})
    return _finish(ctx)
