"""C18 - lost-segment bookkeeping refines an exact interval set (decided in situ).

The four public methods of LostSegmentTracker are wrapped by the harness with a shadow IntervalSet.
The operation histories are the ones the destination handler produces under simulated arrival
histories and fault schedules: the grid population (scripted sender, loss / duplication /
displacement, NAK rounds), acknowledged transfers between the two real handlers with bounded and
unbounded link faults, and the synthetic peer (off-grid offsets and overlaps)."""
from __future__ import annotations

from cfdpsim.runner import from_world
from cfdpsim.world import ACK
from props import insitu
from props.gridpop import grid
from props.monitors import TrackerShadow
from props.synthpop import synthetic

RULE = (
    "every add / remove / coalesce / reset the destination handler issues on its LostSegmentTracker in the grid (45%), "
    "bounded-fault (20%), chaos (10%) and synthetic-peer (25%) populations, acknowledged mode; an operation is judged iff "
    "it satisfies the property's preconditions (addition non-empty and disjoint from what is tracked; removal empty, inside "
    "one tracked range, touching none, or straddling the end of a range), otherwise it is counted (probe "
    "*_outside_preconditions) and the shadow is re-synchronised; non-trivial = population rule and at least one judged "
    "operation; distinct = interleaving signature. NOT reached: the 'exhaustive for small N and depth' part of the "
    "quantifier and operation histories no PDU sequence can induce (DESIGN section 6)"
)
ASSUMPTIONS = [
    "the handler ignores the return value of remove_lost_segment; the wrapper judges it nevertheless",
    "operations outside the preconditions (overlapping additions on the missing-metadata path) are not judged",
]
BUDGET = {"quick": 25, "thorough": 600}


def attach(ctx):
    return [TrackerShadow(ctx.w)]


def _finish(ctx):
    w = ctx.w
    try:
        for m in w.monitors:
            f = getattr(m, "on_end", None)
            if f:
                f(w)
        judged = sum(v for k, v in w.probes.items() if k.startswith("C18.") and "judged" in k)
        return from_world(w, ctx.pop, ctx.nontrivial and judged > 0, ctx.info.get("extras"))
    finally:
        TrackerShadow.active = None
        w.close()


def run_one(t):
    pop = t.weighted([9, 4, 2, 5], "population")
    if pop == 0:
        return _finish(grid(t, attach))
    if pop == 3:
        return _finish(synthetic(t, attach, force={"msgs": 0, "mode": ACK}))
    name = ["bounded_faults", "chaos"][pop - 1]
    ctx = insitu.POPS[name](t, attach, force={"mode": ACK})
    return _finish(ctx)
