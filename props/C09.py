"""C09 - file checksums, decided in situ: every EOF the source emits (incl. cancel-time prefixes and
re-sent EOFs), every destination completion decision and the user's verify_checksum call are compared
with an independent reference implementation (zlib CRC-32, own CRC-32C table, own modular sum)."""
from __future__ import annotations

from props import insitu
from props.monitors import ChecksumMonitor

RULE = (
    "ChecksumMonitor on the fault-free, bounded-fault, cancel and chaos populations: (content, prefix length, chunk "
    "length = per-run segment length, checksum type) tuples as they arise in transfers; prefix != file size arises "
    "from cancel requests and limit faults at arbitrary points; non-trivial = population rule; distinct = signature. "
    "NOT reached: prefix x chunk combinations no transfer produces (stand-alone calculate_checksum with chunk "
    "lengths unrelated to the segment length); see DESIGN section 6"
)
ASSUMPTIONS = ["reference: zlib.crc32, table-driven CRC-32C checked against 0xE3069283, modular sum of zero-padded words"]
BUDGET = {"quick": 25, "thorough": 600}


def attach(ctx):
    return [ChecksumMonitor(ctx.w)]


def run_one(t):
    # checksum types are drawn uniformly here (the general swarm favours the CRCs)
    return insitu.run(t, {"faultfree": 3, "bounded_faults": 2, "cancel": 4, "chaos": 2}, attach)
