"""C06 - NAKs request exactly what is missing (refinement against an IntervalSet model)."""
from __future__ import annotations

from cfdpsim.runner import from_world
from props.gridpop import NakOracle, grid

RULE = (
    "grid population: Metadata, the File Data PDUs of a grid-segmented file and the EOF are delivered by a scripted sender "
    "to a real destination handler (acknowledged mode) in a tape-chosen order with losses, duplicates and displacements "
    "(Metadata / EOF at any position), polls and NAK-timer expiries in between, then up to nak_limit+3 rounds of timer "
    "expiry -> NAK sequence -> tape-chosen (complete / lossy / reversed / no) re-delivery; immediate and deferred NAK mode, "
    "max packet lengths down to the minimum (one request per NAK PDU); non-trivial = some PDU was lost, duplicated or "
    "displaced; distinct = interleaving signature"
)
ASSUMPTIONS = [
    "'stored' is defined from outside: a File Data PDU counts as stored iff the File-Segment-Recv indication (forced on) was "
    "delivered for it and the call did not raise; the set is emptied when the Metadata-Recv indication is delivered",
    "sandwich rule: 'requests only missing bytes' is judged against the state before the call, 'covers everything missing' "
    "against the state after it; exact equality only on calls without inbound PDU (timer-driven re-issue)",
    "extent known so far = max end offset of any File Data PDU delivered, EOF size, Metadata size",
]
BUDGET = {"quick": 25, "thorough": 600}
STUBS = ["scripted sender (props.gridpop.Script) instead of a source handler", "link swallows everything the receiver emits",
         "clock source (spacepackets.countdown.time_ms rebound to SimClock)", "RecUser, RecFaultHandler", "MemFilestore (when selected)"]


def attach(ctx):
    return [NakOracle(ctx.w)]


def run_one(t):
    ctx = grid(t, attach)
    w = ctx.w
    try:
        for m in w.monitors:
            f = getattr(m, "on_end", None)
            if f:
                f(w)
        r = from_world(w, ctx.pop, ctx.nontrivial, {"script_lost": ctx.info["grid"]["lost"], "script_dup": ctx.info["grid"]["dup"],
                                                     "nak_timer_expiry": ctx.info["grid"]["timer_polls"]})
        return r
    finally:
        w.close()
