"""Grid population (C06, C18): a scripted sender delivers the Metadata PDU, the File Data PDUs of a
grid-segmented file and the EOF PDU to a real destination handler in acknowledged mode, in a
tape-chosen arrival order with losses and duplicates, then answers the receiver's NAK sequences
across NAK-timer expiries with tape-chosen re-deliveries (which may be lost again).

Everything the receiver emits is swallowed by the link (the sender is a script, not a handler) and
judged by the monitors attached by the property.
"""
from __future__ import annotations

from cfdpsim.models import IntervalSet, ref_checksum
from cfdpsim.synth import Synth
from cfdpsim.world import ACK, Cfg, World

from spacepackets.cfdp import ConditionCode
from spacepackets.cfdp.pdu import AckPdu, DirectiveType, EofPdu, FileDataPdu, MetadataParams, MetadataPdu, TransactionStatus
from spacepackets.cfdp.pdu.file_data import FileDataParams

from props.pops import Ctx

BIG = 100000.0


class Script:
    """The scripted sender: well-formed PDUs of one transaction, as bytes."""

    def __init__(self, w, t, idw=None, seq_off=0, dst=None, large=False, md_unbounded=False):
        c = w.cfg
        self.w = w
        syn = Synth(w, perturb=0)
        syn.large = large
        if idw is not None:
            syn.idw = idw
        if dst is not None:
            syn.dst_req = dst
        seq = ([7, 0, 200][t.choose(3, "script seq")] + seq_off) % (1 << (8 * c.seqw))
        self.seq = seq
        data = w.src_bytes
        self.size = len(data)
        s = max(c.eff_seg, 1)
        self.s = s
        conf, _, _ = syn.conf(t, "MD", seq, pert=False)
        # a sixth of the scripted senders announce file size 0 in the Metadata PDU: how CFDP marks an unbounded file (the
        # size is then only known from the EOF PDU)
        self.md_size = 0 if (md_unbounded and self.size > 0) else self.size
        self.md = bytes(MetadataPdu(conf, MetadataParams(c.closure, c.ck, self.md_size, w.src_path, dst or w.dst_req)).pack())
        self.tiles = []
        off = 0
        while off < self.size:
            ln = min(s, self.size - off)
            conf, _, _ = syn.conf(t, "FD", seq, pert=False)
            self.tiles.append((off, ln, bytes(FileDataPdu(conf, FileDataParams(data[off : off + ln], off, None)).pack())))
            off += ln
        conf, _, _ = syn.conf(t, "EOF", seq, pert=False)
        self.eof = bytes(EofPdu(conf, ref_checksum(int(c.ck), data), self.size, None, ConditionCode.NO_ERROR).pack())
        conf, _, _ = syn.conf(t, "ACK_FIN", seq, pert=False)
        self.ack_fin = bytes(AckPdu(conf, DirectiveType.FINISHED_PDU, ConditionCode.NO_ERROR, TransactionStatus.ACTIVE).pack())

    def tiles_for(self, a: int, b: int):
        return [x for x in self.tiles if x[0] < b and a < x[0] + x[1]]


def grid(t, attach=None, force=None) -> Ctx:
    f = {
        "mode": ACK, "shell": "plain", "metadata_only": False, "ind_b": 15, "ack_s": BIG,
        "req_mode_given": True, "dst_shape": 0,
    }
    if force:
        f.update(force)
    cfg = Cfg.draw(t, f)
    if cfg.size // max(cfg.eff_seg, 1) > 24:
        cfg.size_sel = [6, 7, 8][t.choose(3, "grid size")]
        cfg.finish()
        if cfg.size // max(cfg.eff_seg, 1) > 24:
            cfg.size_sel = 6
            cfg.finish()
    else:
        t.choose(3, "grid size")
    w = World(t, cfg)
    ctx = Ctx(w, "grid")
    w.link.hook = lambda src, dst, em, key: ("drop",)  # the sender is a script
    w.max_events = 100000
    # a quarter of the runs: the receiver already served a transaction of this sender that used narrower entity ids
    # (smaller PDU headers) and went through a deferred NAK procedure; not judged (the oracle is attached afterwards)
    if t.choose(4, "earlier grid transaction") == 3 and cfg.size > 0:
        pre = Script(w, t, idw=1, seq_off=11, dst="dst/prev.bin")
        w.deliver(w.b, pre.md)
        for i, x in enumerate(pre.tiles):
            if i % 2 == 0:
                w.deliver(w.b, x[2])
        w.deliver(w.b, pre.eof)
        for _ in range(3):
            w.clock.now_ms += 2
            w.poll(w.b, "dst")
        for x in pre.tiles:
            w.clock.now_ms += 1
            w.deliver(w.b, x[2])
        for _ in range(4):
            w.clock.now_ms += 2
            w.poll(w.b, "dst")
            if w.b.handlers["dst"].step.name == "WAITING_FOR_FINISHED_ACK":
                w.deliver(w.b, pre.ack_fin)
        if w.b.handlers["dst"].state.name != "IDLE":
            w.b.handlers["dst"].reset()
            while w.b.handlers["dst"].get_next_packet() is not None:
                pass
        w.clock.now_ms += 50
        w.probe("grid_earlier_transaction")
    if attach is not None:
        for m in attach(ctx):
            w.monitors.append(m)
    ack_seen = AckSeen()
    w.monitors.append(ack_seen)
    # a quarter of the scripted senders use the large-file PDU format (legal for any file size) when the maximum
    # packet length still holds a NAK PDU with one 16-byte segment request
    crcb = 2 if cfg.crc else 0
    large = t.choose(4, "large file format") == 3 and cfg.mpl >= cfg.hdr_len + 1 + 16 + 16 + crcb
    unb = t.choose(6, "metadata announces an unbounded file") == 5
    sc = Script(w, t, large=large, md_unbounded=unb)
    if unb:
        w.probe("grid_metadata_size_zero")
    if large:
        w.probe("grid_large_file_format")
    ctx.info["script"] = sc
    b = w.b
    stats = {"delivered": 0, "lost": 0, "dup": 0, "rounds": 0, "timer_polls": 0}
    ctx.info["grid"] = stats
    nak_ms = int(cfg.nak_s * 1000)

    def dt(ms):
        w.clock.now_ms += ms

    def deliver(raw, tag=""):
        stats["delivered"] += 1
        return w.deliver(b, raw)

    def poll(tags=()):
        return w.poll(b, "dst", tags=tags)

    # ---- initial arrival order
    items = [("MD", sc.md)] + [("FD", x[2]) for x in sc.tiles] + [("EOF", sc.eof)]
    plan = []
    loss_num = [1, 2, 0, 3][t.choose(4, "loss rate")]
    for i, (k, raw) in enumerate(items):
        fate = t.weighted([8 - loss_num * 2 if loss_num < 3 else 3, loss_num * 2 if loss_num < 3 else 5, 1], f"fate {k}{i}")
        if fate == 1:
            stats["lost"] += 1
            continue
        jit = [0, 0, 0, 15, 35, -15, 100, -40][t.choose(8, f"jitter {k}{i}")]
        plan.append((i * 10 + jit, len(plan), raw))
        if fate == 2:
            stats["dup"] += 1
            jit2 = [1, 25, 60, 200][t.choose(4, "dup jitter")]
            plan.append((i * 10 + jit + jit2, len(plan), raw))
    plan.sort()
    for _, _, raw in plan:
        deliver(raw)
        dt(2)
        gap = t.weighted([5, 3, 1], "gap")
        if gap >= 1:
            poll()
            dt(3)
        if gap == 2:
            dt(nak_ms + 10)
            stats["timer_polls"] += 1
            poll(tags=("TIMER",))
            dt(2)
    poll()
    dt(2)
    poll()
    # ---- NAK rounds
    dst = b.handlers["dst"]
    max_rounds = cfg.nak_lim + 3
    for _ in range(max_rounds):
        if dst.step.name in ("IDLE", "SENDING_FINISHED_PDU", "WAITING_FOR_FINISHED_ACK", "TRANSFER_COMPLETION"):
            break
        stats["rounds"] += 1
        dt(nak_ms + 10)
        stats["timer_polls"] += 1
        rec = poll(tags=("TIMER",))
        reqs = []
        for em in rec.emitted:
            if em.kind == "NAK":
                reqs.extend(em.info[3])
        # the sender answers what was requested (and re-sends the EOF if it was never acknowledged)
        todo = []
        for (a, e) in reqs:
            if (a, e) == (0, 0):
                todo.append(("MD", sc.md))
            else:
                for x in sc.tiles_for(a, e):
                    todo.append(("FD", x[2]))
        if not ack_seen.acks:
            todo.append(("EOF", sc.eof))
        mode = t.weighted([4, 2, 1, 1], "answer mode")  # all / lossy / reversed / nothing
        if mode == 2:
            todo.reverse()
        if mode == 3:
            todo = []
            stats["lost"] += 1
        for k, raw in todo:
            if mode == 1 and t.chance(1, 3, f"re-lose {k}"):
                stats["lost"] += 1
                continue
            dt(2)
            deliver(raw)
            if t.chance(1, 4, "poll between"):
                dt(1)
                poll()
        dt(2)
        poll()
        dt(2)
        poll()
    # ---- completion: acknowledge the Finished PDU so that the handler can close
    for _ in range(3):
        if dst.step.name == "WAITING_FOR_FINISHED_ACK":
            dt(2)
            deliver(sc.ack_fin)
            break
        dt(2)
        poll()
    dt(2)
    poll()
    ctx.reason = "done"
    ctx.nontrivial = (stats["lost"] + stats["dup"] > 0 or any(p[0] % 10 for p in plan)) and stats["delivered"] > 0
    return ctx


class AckSeen:
    """Remembers ACK (EOF) PDUs emitted by b.dst, so the script knows whether its EOF arrived."""

    def __init__(self):
        self.acks = []

    def on_call(self, w, rec) -> None:
        if rec.ent == "b" and rec.hk == "dst":
            for em in rec.emitted:
                if em.kind == "ACK":
                    self.acks.append(em)


# ---------------------------------------------------------------------------------------------
# C06 oracle


class NakOracle:
    """IntervalSet model of the bytes stored so far; judges every NAK PDU the receiver emits
    (DESIGN 5, C06). Sandwich rule: must-not clauses against the state before the call, must
    clauses against the state after it."""

    def __init__(self, w):
        self.md_present = False
        self.stored = IntervalSet()
        self.eof_ok = False
        self.eof_size = None
        self.extent = 0
        self.first_after_eof = False
        self.complete_since = None  # number of b.dst calls since nothing is missing
        self.done = False
        self.nak_total = 0
        self.last_issue_t = None

    def on_call(self, w, rec) -> None:
        if rec.ent != "b" or rec.hk != "dst" or rec.op != "sm":
            return
        c = w.cfg
        md_before = self.md_present
        stored_before = self.stored.copy()
        eof_before = self.eof_ok
        names = [i[0] for i in rec.inds]
        k = rec.inb_kind
        # --- model update from what the handler says it accepted
        if k == "FD":
            self.extent = max(self.extent, rec.inb_info[1] + rec.inb_info[2])
        elif k == "EOF" and rec.inb_info[1] == 0:
            self.extent = max(self.extent, rec.inb_info[2])
        elif k == "MD":
            self.extent = max(self.extent, rec.inb_info[1])
        if "metadata_recv" in names:
            self.md_present = True
            self.stored = IntervalSet()
        if "file_segment_recv" in names and k == "FD" and rec.exc is None:
            off, ln = rec.inb_info[1], rec.inb_info[2]
            self.stored.add(off, off + ln)
        if "eof_recv" in names and k == "EOF" and rec.inb_info[1] == 0 and not self.eof_ok:
            self.eof_ok = True
            self.eof_size = rec.inb_info[2]
            self.first_after_eof = True
            just_accepted_eof = True
        else:
            just_accepted_eof = False
        if any(i[0] == "finished" for i in rec.inds) or any(f for f in rec.faults):
            self.done = self.done or any(i[0] == "finished" for i in rec.inds)
        naks = [em for em in rec.emitted if em.kind == "NAK" and em.pdu is not None]
        self.nak_total += len(naks)
        union = IntervalSet()
        meta_req = False
        for em in naks:
            _, s0, s1, reqs = em.info
            # which NAK PDUs belong to the deferred sequence is unambiguous from outside on calls without
            # inbound PDU, and on the first call after the EOF unless that call also carries a File Data
            # PDU while the Metadata PDU is missing (which triggers an immediate-mode NAK of its own)
            deferred = eof_before and (rec.inb is None or (self.first_after_eof and (md_before or k != "FD")))
            if len(em.raw) > c.mpl and not deferred:
                w.probe("C06.immediate_nak_exceeds_max_packet_len")
            if len(em.raw) > c.mpl and deferred:
                w.violate("C06.max_packet_len", f"len={len(em.raw)} mpl={c.mpl} nreq={len(reqs)}", "")
            if not reqs:
                w.violate("C06.empty_nak", f"step={rec.pre.step}", "")
            for (a, e) in reqs:
                if (a, e) == (0, 0):
                    meta_req = True
                    if md_before:
                        w.violate("C06.metadata_request_while_present", f"in={k} step={rec.pre.step}", "")
                    continue
                if not (0 <= a < e):
                    w.violate("C06.malformed_request", f"({a},{e}) in={k} step={rec.pre.step}", "")
                    continue
                if e > self.extent:
                    w.violate("C06.beyond_extent", f"in={k} step={rec.pre.step} md={md_before}", f"({a},{e}) extent={self.extent}")
                if stored_before.overlaps(a, e):
                    w.violate(
                        "C06.requests_stored_bytes",
                        f"in={k} step={rec.pre.step} timer={rec.inb is None} imm={c.imm_nak}",
                        f"({a},{e}) stored={stored_before}",
                    )
                if not (s0 <= a and e <= s1):
                    w.violate("C06.scope", f"in={k} step={rec.pre.step}", f"({a},{e}) scope=({s0},{s1})")
                union.add(a, e)
        # --- exactness of the deferred procedure
        if self.eof_ok and not just_accepted_eof:
            full = IntervalSet([(0, self.eof_size)])
            miss_before = full.minus(stored_before) if eof_before else None
            miss_after = full.minus(self.stored)
            if naks and rec.inb is None:
                w.probe("C06.timer_reissue")
                if len(naks) > 1:
                    w.probe("C06.split_sequence")
                if union != miss_after:
                    w.violate(
                        "C06.deferred_exact",
                        f"timer reissue over={bool(union.minus(miss_after))} under={bool(miss_after.minus(union))} md_missing={not self.md_present}",
                        f"union={union} missing={miss_after}",
                    )
                if meta_req != (not self.md_present):
                    w.violate("C06.deferred_metadata_request", f"req={meta_req} md_present={self.md_present}", "")
            elif self.first_after_eof:
                w.probe("C06.first_sequence")
                if naks:
                    if len(naks) > 1:
                        w.probe("C06.split_sequence")
                    if not miss_after.issubset(union) or (miss_before is not None and not union.issubset(miss_before)):
                        w.violate(
                            "C06.deferred_exact",
                            f"first sequence in={k} under={bool(miss_after.minus(union))} md_missing={not self.md_present}",
                            f"union={union} missing_after={miss_after} missing_before={miss_before}",
                        )
                    if (not self.md_present) and not meta_req:
                        w.violate("C06.deferred_metadata_request", f"first sequence req={meta_req} md_present={self.md_present}", "")
                elif (miss_after or not self.md_present) and rec.exc is None and not rec.faults and rec.post.step not in ("IDLE",):
                    w.violate(
                        "C06.deferred_exact",
                        f"first sequence missing in={k} step={rec.pre.step}->{rec.post.step}",
                        f"missing_after={miss_after} md_present={self.md_present}",
                    )
            if "TIMER" in rec.tags and rec.inb is None and not naks and (miss_after or not self.md_present):
                if not rec.faults and rec.exc is None and rec.post.state != "IDLE" and rec.post.step in ("WAITING_FOR_MISSING_DATA", "WAITING_FOR_METADATA"):
                    w.violate("C06.reissue_missing", f"step={rec.pre.step} md_present={self.md_present}", f"missing={miss_after}")
            self.first_after_eof = False
            # --- nothing missing: no NAK, completion
            if not miss_after and self.md_present:
                if self.complete_since is None:
                    self.complete_since = 0
                else:
                    self.complete_since += 1
                    if naks:
                        w.violate("C06.nak_although_complete", f"in={k} step={rec.pre.step}", f"{[e.info for e in naks]}")
                if any(i[0] == "finished" for i in rec.inds):
                    fi = [i for i in rec.inds if i[0] == "finished"][0]
                    w.probe("C06.completed")
                    if fi[2][:2] != (0, 0):
                        w.violate("C06.completion", f"finished={fi[2]}", "")
                    self.complete_since = -100
                elif self.complete_since is not None and self.complete_since >= 3 and rec.post.state != "IDLE" and not w.fault_log:
                    w.violate("C06.completion", f"no completion {self.complete_since} calls after nothing was missing step={rec.post.step}", "")
                    self.complete_since = -100
            else:
                self.complete_since = None
