"""C08 - retransmissions deliver exactly the requested data and nothing else; the original stream
resumes where it was."""
from __future__ import annotations

from cfdpsim.runner import from_world
from cfdpsim.synth import Synth
from cfdpsim.world import ACK, Cfg, World
from props.monitors import ADMISSION, Monitor, SenderStream, build_msgs
from props.pops import Ctx

from spacepackets.cfdp.pdu import NakPdu

RULE = (
    "acknowledged transfers between the two real handlers (history shell, link drops / duplicates / delays so that real "
    "NAKs occur) plus synthetic NAK PDUs injected at the sender after tape-chosen handler calls - while sending file data, "
    "awaiting the EOF ACK, awaiting Finished, also after a cancel; requests drawn around 0, the segment grid, the live "
    "progress and the file size: valid, (0,0), zero-length, inverted, beyond progress, beyond file size, overlapping, 1..5 "
    "per NAK; put requests carry Metadata options (messages to user, filestore request, flow label, fault handler "
    "override) so that the regenerated Metadata PDU has something to lose; every NAK that reaches the source handler (real "
    "or synthetic) is judged; non-trivial = at least one NAK with a valid data request and one with an invalid request "
    "were judged; distinct = interleaving signature"
)
ASSUMPTIONS = [
    "a request is valid iff it is (0,0) or start < end <= progress read before the call; zero-length requests (start = "
    "end > 0) are neither valid nor required to be rejected (the statement does not mention them)",
    "in the call that serves a NAK the source may additionally emit at most the next PDU of the original stream (it emits "
    "the EOF and serves the NAK in one call when the NAK arrives right after the last File Data PDU)",
    "for a NAK containing an invalid request only 'raises InvalidNakPdu, emits nothing outside the valid requests' is "
    "demanded (the statement does not say what happens to the valid requests of the same PDU)",
]
BUDGET = {"quick": 25, "thorough": 600}
JUDGED_STEPS = ("SENDING_METADATA", "SENDING_FILE_DATA", "RETRANSMITTING", "WAITING_FOR_EOF_ACK", "WAITING_FOR_FINISHED")


class NakMonitor(Monitor):
    def __init__(self, w):
        self.md_raw = None
        self.eof_emitted = False
        self.flagged = False
        self.valid_judged = 0
        self.invalid_judged = 0

    def on_call(self, w, rec) -> None:
        if rec.ent != "a" or rec.hk != "src":
            return
        for em in rec.emitted:
            if em.kind == "MD" and self.md_raw is None:
                self.md_raw = em.raw
            if em.kind == "EOF":
                self.eof_emitted = True
        if rec.op != "sm":
            return
        # resuming where it was: the source cannot wait for the acknowledgement of an EOF it never emitted
        # (serving or rejecting a NAK must not swallow the EOF that was due in the same call)
        if rec.post.step in ("WAITING_FOR_EOF_ACK", "WAITING_FOR_FINISHED") and not self.eof_emitted and not w.cfg.metadata_only and not self.flagged:
            self.flagged = True
            w.violate("C08.eof_swallowed", f"step={rec.pre.step}->{rec.post.step} in={rec.inb_kind} exc={rec.exc!r}", "no EOF PDU emitted so far")
        if rec.inb_kind != "NAK":
            return
        c = w.cfg
        if rec.exc is not None and rec.exc.cls in ADMISSION:
            return
        if rec.pre.step not in JUDGED_STEPS or rec.pre.state != "BUSY":
            w.probe("C08.nak_in_unjudged_step_" + rec.pre.step)
            return
        data = w.src_bytes
        size = len(data)
        seg = c.eff_seg
        prog = rec.pre.progress
        reqs = list(rec.inb_info[3])
        valid, n_md, invalid, neutral = [], 0, [], 0
        for (a, b) in reqs:
            if (a, b) == (0, 0):
                n_md += 1
            elif a == b:
                neutral += 1
            elif a < b <= prog:
                valid.append((a, b))
            else:
                invalid.append((a, b))
        w.probe(f"C08.nak_step_{rec.pre.step}")
        fds, mds, others = [], [], []
        for em in rec.emitted:
            (fds if em.kind == "FD" else mds if em.kind == "MD" else others).append(em)
        # at most one PDU of the original stream
        orig = 0
        keep = []
        for em in fds:
            off, ln = em.info[1], em.info[2]
            if off == prog and prog < size and orig == 0 and ln == min(seg, size - off):
                orig += 1
                continue
            keep.append(em)
        fds = keep
        for em in others:
            if em.kind == "EOF" and orig == 0 and rec.pre.step in ("SENDING_FILE_DATA", "RETRANSMITTING") and prog == size:
                orig += 1
                continue
            w.violate("C08.nothing_else", f"{em.kind} emitted while serving a NAK step={rec.pre.step}", f"{em.info}")
        tag = f"step={rec.pre.step} nreq={len(reqs)}"
        # clauses that hold for every emitted retransmission
        for em in fds:
            off, ln = em.info[1], em.info[2]
            if ln == 0 or ln > seg:
                w.violate("C08.segment_len", f"len={ln} seg={seg} {tag}", f"off={off}")
            if off + ln > size or bytes(em.pdu.file_data) != data[off : off + ln]:
                w.violate("C08.outside_file", f"beyond_size={off + ln > size} {tag}", f"off={off} len={ln} size={size}")
            elif off + ln > prog:
                w.violate("C08.beyond_progress", tag, f"off={off} len={ln} progress={prog}")
        for em in mds:
            if self.md_raw is not None and em.raw != self.md_raw:
                w.violate("C08.metadata_identical", f"len {len(em.raw)} vs {len(self.md_raw)} {tag}", f"{em.info} msgs={c.msgs}")
        if invalid:
            self.invalid_judged += 1
            w.probe("C08.invalid_nak_judged")
            if rec.exc is None or rec.exc.cls != "InvalidNakPdu":
                w.violate("C08.invalid_not_rejected", f"exc={rec.exc!r} {tag}", f"invalid={invalid[:3]} progress={prog} size={size}")
            for em in fds:
                off, ln = em.info[1], em.info[2]
                if not any(a <= off and off + ln <= b for (a, b) in valid):
                    w.violate("C08.emitted_outside_valid_requests", tag, f"fd=({off},{off + ln}) valid={valid} invalid={invalid[:3]}")
            if len(mds) > n_md:
                w.violate("C08.nothing_else", f"{len(mds)} Metadata for {n_md} requests {tag}", "")
            return
        # all requests valid (or zero-length)
        if rec.exc is not None:
            if neutral and rec.exc.cls == "InvalidNakPdu":
                w.probe("C08.zero_length_rejected")
                return
            if rec.exc.cls == "UnretrievedPdusToBeSent":
                return
            w.violate("C08.valid_nak_rejected", f"{rec.exc!r} {tag}", f"reqs={reqs[:4]} progress={prog}")
            return
        if valid or n_md:
            self.valid_judged += 1 if valid else 0
            w.probe("C08.valid_nak_judged")
        if len(mds) != n_md:
            w.violate("C08.metadata_count", f"{len(mds)} Metadata for {n_md} (0,0) requests {tag}", "")
        # multiset equality: every byte is re-sent exactly as often as it was requested
        ev = {}
        for (a, b) in valid:
            ev[a] = ev.get(a, 0) + 1
            ev[b] = ev.get(b, 0) - 1
        for em in fds:
            off, ln = em.info[1], em.info[2]
            ev[off] = ev.get(off, 0) - 1
            ev[off + ln] = ev.get(off + ln, 0) + 1
        bad = [k for k, v in sorted(ev.items()) if v != 0]
        # ev is a difference of coverage counts: all zero iff equal; additionally each FD must lie in one request
        if bad:
            w.violate(
                "C08.tiles_requests_exactly",
                f"{tag} nfd={len(fds)}",
                f"requests={valid} emitted={[(e.info[1], e.info[1] + e.info[2]) for e in fds][:12]} seg={seg}",
            )
        else:
            for em in fds:
                off, ln = em.info[1], em.info[2]
                if not any(a <= off and off + ln <= b for (a, b) in valid):
                    w.violate("C08.tiles_requests_exactly", f"fd crosses request boundary {tag}", f"fd=({off},{off + ln}) requests={valid}")
                    break


def gen_nak(w, t, syn: Synth):
    """A NAK for the live transaction with requests around the live progress."""
    c = w.cfg
    h = w.a.handlers["src"]
    tid = h.transaction_id
    seq = tid.seq_num.value if tid is not None else (w.a.seqp.issued[-1] if w.a.seqp.issued else 0)
    conf, flip, notes = syn.conf(t, "NAK", seq, pert=t.chance(1, 8, "perturb header"))
    s = max(c.eff_seg, 1)
    prog = h.progress
    size = len(w.src_bytes)
    pts = sorted({0, 1, s, 2 * s, max(prog - s, 0), max(prog - 1, 0), prog, prog + 1, prog + s, max(size - 1, 0), size, size + 1, 3 * s + 1})
    n = 1 + t.weighted([6, 3, 2, 1, 1], "nreq")
    shape = t.weighted([5, 3, 1], "nak shape")  # all valid / mixed / anything
    reqs = []
    for _ in range(n):
        form = t.weighted([7, 2, 1, 1, 1] if shape else [7, 2, 0, 0, 0], "form")
        if form == 0:
            a = pts[t.choose(len(pts), "a")]
            ln = [s, 1, 2 * s, max(s - 1, 1), 3 * s + 1, 2 * s + 1, max(prog, 1)][t.choose(7, "len")]  # last: everything sent so far
            b = a + ln
            if shape == 0:
                # keep it inside what was sent
                if prog == 0:
                    a, b = 0, 0
                else:
                    a = min(a, prog - 1)
                    b = max(min(b, prog), a + 1)
        elif form == 1:
            a, b = 0, 0
        elif form == 2:
            a = pts[t.choose(len(pts), "a")]
            b = a
        elif form == 3:
            b = pts[t.choose(len(pts), "b")]
            a = b + 1 + t.choose(s + 1, "inv")
        else:
            a = pts[t.choose(len(pts), "a")]
            b = pts[t.choose(len(pts), "b")]
        reqs.append((a, b))
    hi = max([b for _, b in reqs] + [0])
    pdu = NakPdu(conf, 0, max(hi, size), reqs)
    if flip:
        pass
    return pdu


class Injector(Monitor):
    def __init__(self, ctx, plan, syn):
        self.plan = set(plan)
        self.n = 0
        self.syn = syn
        self.count = 0

    fin_done = False

    def on_call(self, w, rec) -> None:
        if rec.ent != "a" or rec.hk != "src":
            return
        self.n += 1
        if self.n in self.plan:
            w.push(w.clock.t, ("fn", self._inject))
        # once per run, possibly: the peer's Finished PDU arrives early and with ITS header settings (CRC flag, large-file
        # flag: a peer need not mirror them); what the sender emits afterwards still carries the sender's own settings
        if not self.fin_done and rec.post.step == "WAITING_FOR_FINISHED" and not rec.emitted:
            self.fin_done = True
            if w.tape.choose(3, "early finished pdu with the peer's header") == 2:
                w.push(w.clock.t, ("fn", self._inject_fin))

    def _inject_fin(self, w) -> None:
        from spacepackets.cfdp import CrcFlag, LargeFileFlag

        t = w.tape
        h = w.a.handlers["src"]
        tid = h.transaction_id
        if tid is None:
            return
        try:
            from spacepackets.cfdp import ConditionCode
            from spacepackets.cfdp.pdu import FinishedPdu
            from spacepackets.cfdp.pdu.finished import DeliveryCode, FileStatus, FinishedParams

            conf, _, _ = self.syn.conf(t, "FIN", tid.seq_num.value, pert=False)
            v = t.choose(3, "peer header variant")
            if v in (0, 2):
                conf.crc_flag = CrcFlag.NO_CRC if conf.crc_flag == CrcFlag.WITH_CRC else CrcFlag.WITH_CRC
            if v in (1, 2):
                conf.file_flag = LargeFileFlag.LARGE if conf.file_flag == LargeFileFlag.NORMAL else LargeFileFlag.NORMAL
            pdu = FinishedPdu(conf, FinishedParams(ConditionCode.NO_ERROR, DeliveryCode.DATA_COMPLETE, FileStatus.FILE_RETAINED))
            raw = bytes(pdu.pack())
        except Exception:  # noqa: BLE001
            return
        w.probe("C08.early_finished_with_peer_header")
        w.deliver(w.a, raw)

    def _inject(self, w) -> None:
        t = w.tape
        try:
            raw = bytes(gen_nak(w, t, self.syn).pack())
        except Exception:  # noqa: BLE001
            return
        self.count += 1
        w.deliver(w.a, raw)


def nakpop(t) -> Ctx:
    f = {"mode": ACK, "shell": "history", "metadata_only": False, "poll_ms": [100, 50, 200, 250][t.choose(4, "poll")]}
    cfg = Cfg.draw(t, f)
    if cfg.size_sel == 10:
        t.choose(3, "size")  # the scale entry is kept: several hundred segments (or more than 64 KiB) and NAKs for all of it
    elif cfg.size // max(cfg.eff_seg, 1) > 30:
        cfg.size_sel = [6, 7, 8][t.choose(3, "size")]
        cfg.finish()
        if cfg.size // max(cfg.eff_seg, 1) > 30:
            cfg.size_sel = 6
            cfg.finish()
    else:
        t.choose(3, "size")
    w = World(t, cfg)
    ctx = Ctx(w, "nak")
    lf = t.weighted([2, 3, 1], "link faults")
    if lf:
        w.link.enabled = {"drop", "dup", "delay"} if lf == 1 else {"drop"}
        w.link.rate = (1, 6)
        w.link.budget = 3
    nseg = cfg.size // max(cfg.eff_seg, 1)
    horizon = 10 + 2 * nseg
    n_inj = 1 + t.weighted([3, 3, 2, 1], "n injections")
    plan = [1 + t.choose(horizon, "inject after call") for _ in range(n_inj)]
    syn = Synth(w, perturb=12)
    nm = NakMonitor(w)
    inj = Injector(ctx, plan, syn)
    ctx.info["nak"] = nm
    ctx.info["inj"] = inj
    w.monitors.extend([SenderStream(w, prefix="C08"), nm, inj])
    cancel_at = t.weighted([8, 1, 1], "cancel")  # sometimes the sender is cancelled and NAKs still arrive
    if cancel_at:
        after = 2 + t.choose(horizon, "cancel after")

        class _C(Monitor):
            n = 0

            def on_call(self, w2, rec):
                if rec.ent == "a" and rec.hk == "src":
                    self.n += 1
                    if self.n == after:
                        def fn(w3):
                            tid = w3.a.handlers["src"].transaction_id
                            if tid is not None and w3.a.handlers["src"].num_packets_ready == 0:
                                r = w3.call(w3.a, "src", "cancel", arg=tid)
                                for m in w3.monitors:
                                    f2 = getattr(m, "on_cancel", None)
                                    if f2:
                                        f2(w3, r, 0, False, None)
                        w2.push(w2.clock.t, ("fn", fn))

        w.monitors.append(_C())
    w.max_events = 6000
    w.max_t = 300_000
    msgs, oid = build_msgs(cfg.msgs)
    opts = t.weighted([3, 1, 1, 2], "md options")
    ctx.put_rec = w.call(w.a, "src", "put", arg=w.put_request_obj(msgs, opts))
    w.start_polls()
    ctx.reason = w.run()
    ctx.nontrivial = nm.valid_judged > 0 and nm.invalid_judged > 0
    return ctx


def run_one(t):
    ctx = nakpop(t)
    w = ctx.w
    try:
        for m in w.monitors:
            f = getattr(m, "on_end", None)
            if f:
                f(w)
        return from_world(w, ctx.pop, ctx.nontrivial, {"synthetic_nak": ctx.info["inj"].count})
    finally:
        w.close()
