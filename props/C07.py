"""C07 - the source emits a conformant, complete and size-bounded PDU stream (in-situ invariant)."""
from __future__ import annotations

from props import insitu, pops
from props.monitors import SenderStream

RULE = (
    "SenderStream model judged on every PDU entity a's source handler emits in the fault-free (all pacings), "
    "bounded-fault (NAK / poll interleaving) and cancel populations, full configuration swarm; non-trivial = the "
    "population's own rule (pacing varied / faults fired / cancel accepted); in a quarter of the bounded-fault and cancel runs "
    "the sender's filestore raises on tape-chosen read_data calls (transient storage fault, the user keeps calling); "
    "distinct = interleaving signature"
)
ASSUMPTIONS = ["original vs retransmitted File Data is decided by the inbound PDU of the call (a NAK) and by offset"]
BUDGET = {"quick": 25, "thorough": 600}


def attach(ctx):
    m = SenderStream(ctx.w)
    ctx.info["stream"] = m
    w = ctx.w
    if ctx.pop != "faultfree" and w.fs_fault_x is None and w.tape.choose(4, "source store hiccups") == 3:
        # storage fault at the sender: read_data raises for a while (the exception comes out of state_machine, the user keeps
        # calling); the stream that is emitted around it must still tile the file exactly once
        pops.source_store_hiccups(w, w.tape)
    return [m]


def run_one(t):
    return insitu.run(t, {"faultfree": 5, "bounded_faults": 4, "cancel": 2}, attach)
