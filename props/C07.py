"""C07 - the source emits a conformant, complete and size-bounded PDU stream (in-situ invariant)."""
from __future__ import annotations

from props import insitu
from props.monitors import SenderStream

RULE = (
    "SenderStream model judged on every PDU entity a's source handler emits in the fault-free (all pacings), "
    "bounded-fault (NAK / poll interleaving) and cancel populations, full configuration swarm; non-trivial = the "
    "population's own rule (pacing varied / faults fired / cancel accepted); distinct = interleaving signature"
)
ASSUMPTIONS = ["original vs retransmitted File Data is decided by the inbound PDU of the call (a NAK) and by offset"]
BUDGET = {"quick": 25, "thorough": 600}


def attach(ctx):
    m = SenderStream(ctx.w)
    ctx.info["stream"] = m
    return [m]


def run_one(t):
    return insitu.run(t, {"faultfree": 5, "bounded_faults": 4, "cancel": 2}, attach)
