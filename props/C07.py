"""C07 - the source emits a conformant, complete and size-bounded PDU stream (in-situ invariant)."""
from __future__ import annotations

from props import insitu, pops
from props.monitors import SenderStream

RULE = (
    "SenderStream model judged on every PDU entity a's source handler emits in the fault-free (all pacings), "
    "bounded-fault (NAK / poll interleaving) and cancel populations, full configuration swarm; non-trivial = the "
    "population's own rule (pacing varied / faults fired / cancel accepted); in a quarter of the bounded-fault and cancel runs "
    "the sender's filestore raises on tape-chosen read_data calls (transient storage fault, the user keeps calling); "
    "distinct = interleaving signature"
)
ASSUMPTIONS = ["original vs retransmitted File Data is decided by the inbound PDU of the call (a NAK) and by offset"]
BUDGET = {"quick": 25, "thorough": 600}


def attach(ctx):
    m = SenderStream(ctx.w)
    ctx.info["stream"] = m
    w = ctx.w
    if ctx.pop != "faultfree" and w.fs_fault_x is None and w.tape.choose(4, "source store hiccups") == 3:
        # storage fault at the sender: read_data raises for a while (the exception comes out of state_machine, the user keeps
        # calling); the stream that is emitted around it must still tile the file exactly once
        pops.source_store_hiccups(w, w.tape)
    return [m]


def huge_file(t):
    """Scale: a source file just above 4 GiB (sparse, on the tmpfs sandbox, native filestore). The transfer is only started:
    the Metadata PDU and the first File Data PDUs show whether the large-file PDU format, the segment length derived from
    the maximum packet length and the offsets are right; then the sending user cancels (the EOF (cancel) covers what was
    sent)."""
    import os

    from cfdpsim.runner import from_world
    from cfdpsim.world import Cfg, World, pdu_hdr
    from props.pops import Ctx

    f = {"vfs": "native", "shell": "plain", "metadata_only": False, "msgs": 0, "size_sel": 2,
         "ack_s": 100000.0, "nak_s": 100000.0, "check_s_send": 100000.0, "check_s_recv": 100000.0}
    cfg = Cfg.draw(t, f)
    w = World(t, cfg)
    ctx = Ctx(w, "huge_file")
    try:
        size = (1 << 32) + [1000, 1, 0][t.choose(3, "bytes beyond 4 GiB")]
        os.truncate(w.src_path, size)  # sparse: zeros
        a = w.a
        h = a.handlers["src"]
        rec = w.call(a, "src", "put", arg=w.put_request_obj(None))
        if rec.ret is not True or rec.exc is not None:
            w.violate("C07.huge_put", f"ret={rec.ret} exc={rec.exc!r}", "")
            return from_world(w, ctx.pop, False)
        crc = 2 if cfg.crc else 0
        derived = cfg.mpl - cfg.hdr_len - 8 - crc  # File Data PDU of the large format: 8-byte offset
        want_seg = derived if cfg.seg is None else min(cfg.seg, derived)
        nxt = 0
        n_fd = 0
        for _ in range(3 + t.choose(8, "huge file calls")):
            r = w.poll(a, "src")
            if r.exc is not None:
                w.violate("C07.huge_exception", f"{r.exc!r}", r.exc.msg)
                break
            for em in r.emitted:
                if em.pdu is None:
                    w.violate("C07.parsable", f"kind=?? len={len(em.raw)}", "")
                    continue
                large = int(em.pdu.pdu_header.pdu_conf.file_flag)
                if large != 1:
                    w.violate("C07.large_file_flag", f"{em.kind} without the large-file flag for a file of {size} bytes", "")
                if em.kind in ("FD", "EOF", "ACK") and len(em.raw) > cfg.mpl:
                    w.violate("C07.max_packet_len", f"{em.kind} len={len(em.raw)} mpl={cfg.mpl} (large-file format)", "")
                if em.kind == "MD" and em.info[1] != size:
                    w.violate("C07.metadata_fields", f"size={em.info[1]} want={size}", "")
                if em.kind == "FD":
                    off, ln = em.info[1], em.info[2]
                    n_fd += 1
                    if off != nxt or ln != want_seg:
                        w.violate("C07.tiling", f"off={off} expected={nxt} len={ln} want={want_seg} (large-file format)", "")
                    head = w.src_bytes  # the sparse file keeps the few bytes the world wrote at its start, the rest reads as zeros
                    want_body = (head[off:off + ln] + bytes(ln))[:ln] if off < len(head) else bytes(ln)
                    if bytes(em.pdu.file_data) != want_body:
                        w.violate("C07.file_bytes", f"off={off}", "")
                    nxt = off + ln
        tid = h.transaction_id
        if tid is not None and not h.packets_ready:
            rc = w.call(a, "src", "cancel", arg=tid)
            eofs = [e for e in rc.emitted if e.kind == "EOF"]
            if rc.ret is True and (not eofs or eofs[0].info[2] != nxt):
                w.violate("C07.eof_cancel_size", f"eof={[e.info[2] for e in eofs]} file bytes sent={nxt} (large-file format)", "")
        w.probe("C07.huge_file")
        return from_world(w, ctx.pop, n_fd > 0)
    finally:
        w.close()


def run_one(t):
    if t.choose(16, "huge file") == 15:
        return huge_file(t)
    return insitu.run(t, {"faultfree": 5, "bounded_faults": 4, "cancel": 2}, attach)
