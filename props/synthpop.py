"""Synthetic-peer population: a real transfer is driven to a tape-chosen point, then arbitrary
well-formed PDUs, API calls and time steps are thrown at both handlers of both entities."""
from __future__ import annotations

from cfdpsim.synth import KINDS, Synth
from cfdpsim.world import ACK, Cfg, World, parse_pdu, tid_t

from spacepackets.cfdp import TransactionId
from spacepackets.util import UnsignedByteField

from props.pops import Ctx, _start


def live_seq(w) -> int:
    tid = w.a.handlers["src"].transaction_id
    if tid is not None:
        return tid.seq_num.value
    tid = w.b.handlers["dst"].transaction_id
    if tid is not None:
        return tid.seq_num.value
    return w.a.seqp.issued[-1] if w.a.seqp.issued else 0


def synthetic(t, attach=None, force=None, misroute: bool = True, on_inject=None) -> Ctx:
    f = {"shell": "plain", "poll_ms": [100, 50, 200, 250][t.choose(4, "poll")]}
    if force:
        f.update(force)
    cfg = Cfg.draw(t, f)
    if cfg.size // max(cfg.eff_seg, 1) > 30:
        cfg.size_sel = 6
        cfg.finish()
    w = World(t, cfg)
    ctx = Ctx(w, "synthetic")
    w.max_events = 3000
    w.max_t = 400_000
    syn = Synth(w, perturb=[12, 6, 40][t.choose(3, "perturb")])
    # the receiving entity also knows a second remote entity (id 3) that counts its transactions from the same number
    import copy as _copy

    r3 = _copy.copy(w.b.rcfg)
    r3.entity_id = UnsignedByteField(3, cfg.idw_a)
    w.b.table.add_config(r3)
    ctx.info["synth"] = syn
    ctx.info["injected"] = {}
    ctx.info["rejected"] = 0
    ctx.info["accepted"] = 0
    if t.choose(3, "link faults") == 2:
        w.link.enabled = {"drop", "dup", "delay"}
        w.link.rate = (1, 6)
    nodrain_mode = t.choose(6, "nodrain") == 5
    _start(ctx, attach)
    prefix = t.choose(14 + 2 * min(cfg.size // max(cfg.eff_seg, 1), 12), "real prefix events")
    for _ in range(prefix):
        if not w.step():
            break
    n_ops = 6 + t.choose(30, "n synthetic ops")
    a, b = w.a, w.b
    for _ in range(n_ops):
        op = t.weighted([10, 3, 3, 2, 1, 1, 1], "synthetic op")
        if op == 0:
            # inject a synthetic PDU at one of the entities
            to_b = t.weighted([3, 2], "inject at") == 0
            ent = b if to_b else a
            kind = KINDS[t.weighted([3, 5, 3, 2, 2, 3, 2, 1, 1] if to_b else [1, 1, 1, 3, 1, 5, 4, 2, 1], "kind")]
            pdu, notes = syn.gen(t, kind, live_seq(w))
            try:
                raw = bytes(pdu.pack())
            except Exception:  # noqa: BLE001
                continue  # generator produced something the codec cannot encode: not a well-formed PDU
            ctx.info["injected"][kind] = ctx.info["injected"].get(kind, 0) + 1
            mis = misroute and t.chance(1, 10, "misroute")
            pre_tree = w.vfs_a.h_tree() if on_inject is None else None
            rec = w.deliver(ent, raw, misroute=mis)
            if rec is not None:
                if rec.exc is not None:
                    ctx.info["rejected"] += 1
                else:
                    ctx.info["accepted"] += 1
                if on_inject is not None:
                    on_inject(ctx, rec, notes)
                else:
                    _tree_check(w, rec, pre_tree)
        elif op == 1:
            ent, hk = [(a, "src"), (b, "dst"), (a, "dst"), (b, "src")][t.weighted([4, 4, 1, 1], "poll who")]
            w.poll(ent, hk)
        elif op == 2:
            c = cfg
            dt = [10, 120, int(c.ack_s * 1000) + 10, int(c.nak_s * 1000) + 10, int(c.check_s_recv * 1000) + 10, 5000][
                t.choose(6, "advance")
            ]
            w.clock.now_ms += dt
        elif op == 3:
            for _ in range(1 + t.choose(12, "real steps")):
                if not w.step():
                    break
        elif op == 4:
            ent, hk = [(a, "src"), (b, "dst")][t.choose(2, "cancel who")]
            h = ent.handlers[hk]
            live = h.transaction_id
            if live is None or t.chance(1, 3, "wrong id"):
                tid = TransactionId(UnsignedByteField(1, cfg.idw), UnsignedByteField(99 % (1 << (8 * cfg.seqw)), cfg.seqw))
            else:
                tid = live
            w.call(ent, hk, "cancel", arg=tid)
        elif op == 5:
            req = w.put_request_obj()
            # put requests naming only one of the two files, or a source file that does not exist
            v = t.weighted([6, 1, 1, 1], "put variant")
            if v == 1:
                req.dest_file = None
            elif v == 2:
                req.source_file = None
            elif v == 3 and req.source_file is not None:
                from pathlib import Path as _P

                req.source_file = _P("src/nope.bin")
            w.call(a, "src", "put", arg=req)
        elif op == 6 and nodrain_mode:
            ent = [a, b][t.choose(2, "nodrain who")]
            ent.nodrain = not ent.nodrain
            if not ent.nodrain:
                # the shell resumes draining: retrieve what it left
                for hk, h in ent.handlers.items():
                    while h.get_next_packet() is not None:
                        pass
                    ent.drained[hk] = True
    for ent in (a, b):
        if ent.nodrain:
            ent.nodrain = False
            for hk, h in ent.handlers.items():
                while h.get_next_packet() is not None:
                    pass
                ent.drained[hk] = True
    for _ in range(t.choose(40, "tail events")):
        if not w.step():
            break
    ctx.reason = "done"
    ctx.nontrivial = ctx.info["accepted"] > 0 and ctx.info["rejected"] > 0
    return ctx


def _tree_check(w, rec, pre_tree) -> None:
    from props.monitors import ADMISSION

    if rec.exc is not None and rec.exc.cls in ADMISSION and pre_tree is not None:
        post = w.vfs_a.h_tree()
        if post != pre_tree:
            w.violate("C10.reject_changes_filestore", f"{rec.exc.cls} {rec.ent}.{rec.hk} in={rec.inb_kind} step={rec.pre.step}", "")
