"""C17 - native filestore operations match a reference file-system model.

Tape-generated operation histories on the real NativeFilestore in a tmpfs sandbox, judged after
every operation against a dict-based model (return value / exception, whole tree, contents). Second
population: an OSError (EACCES / ENOSPC / EIO) is injected at the k-th host file-system access of
an operation; a failing or refusing operation must leave the tree unchanged and never report
success.
"""
from __future__ import annotations

import errno
import hashlib
import os
from pathlib import Path

from cfdpsim import env  # noqa: F401
from cfdpsim.audit import SyscallAudit
from cfdpsim.runner import RunResult
from cfdpsim.stores import enter_sandbox, host_tree, leave_sandbox
from cfdpsim.world import Violation, hash_sig

from cfdppy.filestore import NativeFilestore
from spacepackets.cfdp.tlv import FilestoreResponseStatusCode as F

RULE = (
    "6..40 operations per run drawn from create / delete / rename / replace / create directory / remove directory "
    "(recursive or not) / truncate / write at offset / read at offset / size / exists / is_directory over 4 file names, 2 "
    "directories, one nested level, a missing parent and a file used as parent; offsets {none,0,1,3,8,20}, 5 payloads; "
    "tree and contents compared with the model after EVERY operation; fault population (40% of runs): an OSError is "
    "injected at the k-th (k in 1..3) host access of tape-chosen operations; non-trivial = at least 3 operations changed "
    "the tree and 2 were refused (and, fault population, one injected error fired); distinct = sequence of (operation, outcome class)"
)
ASSUMPTIONS = [
    "the model encodes the semantics of the interface docstrings and of the status-code names; where neither decides "
    "(missing parent directory for create_directory / rename: raise or refusal code - create_file always answers with the "
    "refusal code; source of a successful replace; size / read of a directory) the "
    "model accepts either and re-synchronises",
    "an operation hit by an injected OSError may raise it or return a refusal code of its own family, never a success "
    "code, and must leave the tree unchanged (recursive directory removal may have removed part of its own subtree)",
    "list_directory is not in the statement and is not exercised (it shells out and changes the working directory)",
]
BUDGET = {"quick": 25, "thorough": 600}
REAL = ["cfdppy.filestore.NativeFilestore on a tmpfs sandbox directory (real os / pathlib / shutil)"]
STUBS = ["OSError injection proxies on builtins.open, io.open, os.* (cfdpsim.audit)", "FsModel (props.C17)"]

FILES = ["a", "b", "d1/a", "d1/b", "d2/a", "d1/n/a", "c", "d"]
DIRS = ["d1", "d2", "d1/n"]
ODD = ["nodir/a", "a/x", "d1/n/q/z"]
# (scale: a payload longer than one 4 KiB block, offsets that leave holes of more than 4 KiB / 64 KiB behind the end of the file)
PAYLOADS = [b"hello", b"", b"X", b"123456789", bytes(range(64)), bytes((i * 7 + 3) & 0xFF for i in range(6001))]
OFFS = [None, 0, 1, 3, 8, 20, 5000, 70001]
SUCCESS = {F.SUCCESS, F.DELETE_SUCCESS, F.RENAME_SUCCESS, F.REPLACE_SUCCESS, F.CREATE_DIR_SUCCESS, F.REMOVE_DIR_SUCCESS}
FAMILY = {"create_file": 0x0, "delete_file": 0x1, "rename_file": 0x2, "replace_file": 0x4, "create_directory": 0x5, "remove_directory": 0x6}


class FsModel:
    def __init__(self):
        self.t = {}  # path -> bytes (file) | None (directory)

    def load(self, tree):
        self.t = {k[1]: (v if k[0] == "f" else None) for k, v in tree.items()}

    def as_tree(self):
        return {(("d" if v is None else "f"), k): v for k, v in self.t.items()}

    def is_file(self, p):
        return p in self.t and self.t[p] is not None

    def is_dir(self, p):
        return p == "." or (p in self.t and self.t[p] is None)

    def exists(self, p):
        return p == "." or p in self.t

    def parent_ok(self, p):
        par = os.path.dirname(p) or "."
        return self.is_dir(par)

    def children(self, d):
        return [k for k in self.t if k.startswith(d + "/")]


def _run(t):
    sb = enter_sandbox()
    fs = NativeFilestore()
    m = FsModel()
    log = []
    viol = []
    probes = {}
    faults = {}
    sig = []
    aud = SyscallAudit()
    state = {"k": 0, "n": 0, "err": None, "fired": False}

    def fault_hook(label):
        if state["k"]:
            state["n"] += 1
            if state["n"] == state["k"]:
                state["fired"] = True
                e = state["err"]
                raise OSError(e, os.strerror(e))

    aud.fault_fn = fault_hook

    def violate(clause, locus, detail=""):
        viol.append(Violation(clause, locus, detail))
        log.append(f"  !! VIOLATION {clause} | {locus} | {detail}")

    def probe(n):
        probes[n] = probes.get(n, 0) + 1

    try:
        fault_pop = t.weighted([3, 2], "fault population") == 1
        # initial tree
        init = t.choose(4, "initial tree")
        if init >= 1:
            os.mkdir("d1")
            Path("a").write_bytes(b"initial-a")
        if init >= 2:
            os.mkdir("d1/n")
            Path("d1/a").write_bytes(b"0123456789abcdef")
            Path("d1/n/a").write_bytes(b"nested")
        if init == 3:
            os.mkdir("d2")
            Path("b").write_bytes(b"")
        m.load(host_tree("."))
        n_ops = 6 + t.choose(35, "n ops")
        changed = refused = fired_n = 0
        for i in range(n_ops):
            op = t.weighted([4, 3, 3, 3, 3, 3, 2, 5, 4, 1, 1, 1], "op")
            name = ["create_file", "delete_file", "rename_file", "replace_file", "create_directory", "remove_directory",
                    "truncate_file", "write_data", "read_data", "file_size", "file_exists", "is_directory"][op]

            def pick(label):
                cls = t.weighted([6, 2, 1], label + " class")
                pool = [FILES, DIRS, ODD][cls]
                return pool[t.choose(len(pool), label)]

            p1 = pick("p1")
            args = [Path(p1)]
            desc = f"{name}({p1}"
            p2 = None
            if name in ("rename_file", "replace_file"):
                p2 = pick("p2")
                args.append(Path(p2))
                desc += f",{p2}"
            rec_flag = None
            if name == "remove_directory":
                rec_flag = bool(t.choose(2, "recursive"))
                args.append(rec_flag)
                desc += f",recursive={rec_flag}"
            data = off = rl = None
            if name == "write_data":
                data = PAYLOADS[t.choose(len(PAYLOADS), "payload")]
                off = OFFS[t.choose(len(OFFS), "offset")]
                args = [Path(p1), data, off]
                desc += f",len={len(data)},off={off}"
            if name == "read_data":
                off = [None, 0, 2, 50, 4097, 70000][t.choose(6, "read off")]
                rl = [None, 0, 1, 4, 100, 5000, 9000][t.choose(7, "read len")]
                args = [Path(p1), off, rl]
                desc += f",off={off},len={rl}"
            desc += ")"
            state["k"] = 0
            state["n"] = 0
            state["fired"] = False
            if fault_pop and t.chance(1, 4, "inject"):
                state["k"] = 1 + t.choose(3, "k")
                state["err"] = [errno.EACCES, errno.ENOSPC, errno.EIO][t.choose(3, "errno")]
            before = m.as_tree()
            ret = exc = None
            aud.enter()
            try:
                ret = getattr(fs, name)(*args)
            except Exception as e:  # noqa: BLE001
                exc = e
            finally:
                aud.exit()
            fired = state["fired"]
            state["k"] = 0
            real = host_tree(".")
            outcome = _judge(m, name, p1, p2, rec_flag, data, off, rl, ret, exc, fired, before, real, violate, probe, desc)
            if fired:
                fired_n += 1
                faults["oserror_injected"] = faults.get("oserror_injected", 0) + 1
            if real != before:
                changed += 1
            if outcome in ("refused", "raised"):
                refused += 1
            sig.append((name, outcome))
            log.append(f"#{i} {desc} -> {outcome} ret={getattr(ret, 'name', ret if not isinstance(ret, bytes) else len(ret))} exc={type(exc).__name__ if exc else None}{' FAULT' if fired else ''}")
            m.load(real)  # the next operation is judged from the real state (divergence was reported)
        r = RunResult()
        r.violations = viol
        r.nontrivial = changed >= 3 and refused >= 2 and (fired_n >= 1 or not fault_pop)
        r.sig = hash_sig(sig)
        r.nstates = len(set(sig))
        r.probes = probes
        r.faults = faults
        r.events = n_ops
        r.calls = n_ops
        r.log = log
        r.digest = hashlib.sha256("\n".join(log).encode()).hexdigest()[:16]
        r.cfg = {"fault_population": fault_pop, "initial_tree": init, "ops": n_ops}
        r.pop = "fs_faults" if fault_pop else "fs_plain"
        return r
    finally:
        aud.close()
        aud.fault_fn = None
        leave_sandbox(sb)


def _judge(m, name, p1, p2, rec_flag, data, off, rl, ret, exc, fired, before, real, violate, probe, desc) -> str:
    """Compares one operation with the model; returns the outcome class."""
    loose = False

    def unchanged(what):
        if real != before:
            ks = sorted(k for k in set(real) | set(before) if real.get(k, "<absent>") != before.get(k, "<absent>"))
            violate("C17.refused_changes_tree", f"{name} {what}", f"{desc} changed={ks[:4]}")

    # ---- injected fault: raise or family refusal, never success, tree unchanged
    if fired:
        probe("C17.fault_fired_" + name)
        if exc is not None:
            if not isinstance(exc, OSError):
                violate("C17.fault_wrong_exception", f"{name} {type(exc).__name__}", desc)
        elif name in FAMILY:
            if ret in SUCCESS:
                violate("C17.fault_reported_success", f"{name} ret={getattr(ret, 'name', ret)}", desc)
            elif not isinstance(ret, F) or (int(ret) >> 4) != FAMILY[name]:
                violate("C17.status_family", f"{name} ret={getattr(ret, 'name', ret)}", desc)
        elif name in ("file_exists", "is_directory"):
            pass  # a probe that cannot stat may answer False
        else:
            violate("C17.fault_swallowed", f"{name} returned {str(ret)[:20]}", desc)
        if name == "remove_directory" and rec_flag:
            extra = [k for k in real if k not in before]
            gone = [k for k in before if k not in real and not (k[1] == p1 or k[1].startswith(p1 + "/"))]
            if extra or gone:
                violate("C17.refused_changes_tree", f"{name} recursive under fault", f"{desc} extra={extra[:3]} gone={gone[:3]}")
        else:
            unchanged("under injected OSError")
        return "raised" if exc is not None else "refused"
    # ---- expected behaviour from the model
    want_ret = None
    want_exc = None
    new = dict(m.t)
    if name == "create_file":
        if m.exists(p1):
            want_ret = F.CREATE_NOT_ALLOWED
        elif not m.parent_ok(p1):
            # create_file documents that it answers with the refusal code (it never raises for a target that
            # cannot be created: missing parent, parent is a regular file)
            want_ret = F.CREATE_NOT_ALLOWED
        else:
            want_ret = F.SUCCESS
            new[p1] = b""
    elif name == "delete_file":
        if not m.exists(p1):
            want_ret = F.DELETE_FILE_DOES_NOT_EXIST
        elif m.is_dir(p1):
            want_ret = F.DELETE_NOT_ALLOWED
        else:
            want_ret = F.DELETE_SUCCESS
            del new[p1]
    elif name == "rename_file":
        if m.is_dir(p1) or m.is_dir(p2):
            want_ret = F.RENAME_NOT_PERFORMED
        elif not m.exists(p1):
            want_ret = F.RENAME_OLD_FILE_DOES_NOT_EXIST
        elif m.exists(p2):
            want_ret = F.RENAME_NEW_FILE_DOES_EXIST
        elif not m.parent_ok(p2):
            # "the specific refusal code when a precondition fails": the parent of the new name does not exist
            want_ret = F.RENAME_NOT_PERFORMED
        else:
            want_ret = F.RENAME_SUCCESS
            new[p2] = new.pop(p1)
    elif name == "replace_file":
        if m.is_dir(p1) or m.is_dir(p2):
            want_ret = F.REPLACE_NOT_ALLOWED
        elif not m.exists(p1):
            want_ret = F.REPLACE_FILE_NAME_ONE_TO_BE_REPLACED_DOES_NOT_EXIST
        elif not m.exists(p2):
            want_ret = F.REPLACE_FILE_NAME_TWO_REPLACE_SOURCE_NOT_EXIST
        else:
            want_ret = F.REPLACE_SUCCESS
            new[p1] = new[p2]
    elif name == "create_directory":
        if m.exists(p1):
            want_ret = F.CREATE_DIR_CAN_NOT_BE_CREATED
        elif not m.parent_ok(p1):
            want_ret = F.CREATE_DIR_CAN_NOT_BE_CREATED
        else:
            want_ret = F.CREATE_DIR_SUCCESS
            new[p1] = None
    elif name == "remove_directory":
        if not m.exists(p1):
            want_ret = F.REMOVE_DIR_DOES_NOT_EXIST
        elif not m.is_dir(p1):
            want_ret = F.REMOVE_DIR_NOT_ALLOWED
        elif m.children(p1) and not rec_flag:
            want_ret = F.REMOVE_DIR_NOT_ALLOWED
        else:
            want_ret = F.REMOVE_DIR_SUCCESS
            for k in m.children(p1):
                del new[k]
            del new[p1]
    elif name == "truncate_file":
        if not m.exists(p1):
            want_exc = FileNotFoundError
        elif m.is_dir(p1):
            want_exc = OSError
        else:
            new[p1] = b""
    elif name == "write_data":
        if not m.exists(p1):
            want_exc = FileNotFoundError
        elif m.is_dir(p1):
            want_exc = OSError
        else:
            cur = bytearray(new[p1])
            o = 0 if off is None else off
            if data:  # writing nothing extends nothing
                if o > len(cur):
                    cur.extend(b"\0" * (o - len(cur)))
                cur[o : o + len(data)] = data
            new[p1] = bytes(cur)
    elif name == "read_data":
        if not m.exists(p1):
            want_exc = FileNotFoundError
        elif m.is_dir(p1):
            want_exc = OSError
        else:
            o = 0 if off is None else off
            c = m.t[p1]
            want_ret = c[o:] if rl is None else c[o : o + rl]
    elif name == "file_size":
        if not m.exists(p1):
            want_exc = FileNotFoundError
        elif m.is_dir(p1):
            loose = True
        else:
            want_ret = len(m.t[p1])
    elif name == "file_exists":
        want_ret = m.exists(p1)
    elif name == "is_directory":
        want_ret = m.is_dir(p1)
    # ---- compare
    want_tree = {(("d" if v is None else "f"), k): v for k, v in new.items()}
    if loose:
        # unspecified: raise or refusal; tree must be unchanged
        probe("C17.loose_case_" + name)
        if exc is None and name in FAMILY:
            if ret in SUCCESS:
                violate("C17.success_without_effect_possible", f"{name} ret={ret.name}", desc)
            elif (int(ret) >> 4) != FAMILY[name]:
                violate("C17.status_family", f"{name} ret={ret.name}", desc)
        if name != "file_size":
            unchanged("(missing parent)")
        return "raised" if exc is not None else "refused"
    if want_exc is not None:
        if exc is None:
            violate("C17.missing_exception", f"{name} want={want_exc.__name__} got ret={str(ret)[:20]}", desc)
        elif not isinstance(exc, want_exc):
            violate("C17.wrong_exception", f"{name} want={want_exc.__name__} got={type(exc).__name__}", desc)
        unchanged("raised")
        return "raised"
    if exc is not None:
        violate("C17.unexpected_exception", f"{name} {type(exc).__name__}", f"{desc} {str(exc)[:60]}")
        unchanged("raised")
        return "raised"
    if name in FAMILY:
        if not isinstance(ret, F) or (int(ret) >> 4) != FAMILY[name]:
            violate("C17.status_family", f"{name} ret={getattr(ret, 'name', ret)}", desc)
        if ret != want_ret:
            violate("C17.status_code", f"{name} got={getattr(ret, 'name', ret)} want={want_ret.name}", desc)
    elif name in ("read_data", "file_size", "file_exists", "is_directory"):
        if ret != want_ret:
            violate("C17.returned_data", f"{name}", f"{desc} got={str(ret)[:40]} want={str(want_ret)[:40]}")
    if name == "replace_file" and want_ret == F.REPLACE_SUCCESS and p1 != p2:
        # whether the source still exists afterwards is not specified
        alt = dict(want_tree)
        alt.pop(("f", p2), None)
        if real != want_tree and real != alt:
            violate("C17.tree", f"{name}", f"{desc} real={_brief(real)} want={_brief(want_tree)}")
        return "ok"
    if real != want_tree:
        ks = sorted(k for k in set(real) | set(want_tree) if real.get(k, "<absent>") != want_tree.get(k, "<absent>"))
        k0 = ks[0]
        kind = "refused_changes_tree" if want_tree == before else "tree"
        violate(f"C17.{kind}", f"{name} {'content' if k0 in real and k0 in want_tree else 'presence'} of {k0[0]}", f"{desc} path={k0[1]} real={_b(real.get(k0))} want={_b(want_tree.get(k0))}")
    if name in FAMILY and want_ret not in SUCCESS:
        return "refused"
    return "ok"


def _b(v):
    if v is None:
        return None
    return f"{len(v)}:{v[:12]!r}"


def _brief(tree):
    return {k[1]: (None if v is None else len(v)) for k, v in tree.items()}


def run_one(t):
    return _run(t)
