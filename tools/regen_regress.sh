#!/bin/sh
# tools/regen_regress.sh - regenerates the regression tapes under /verif/regress after the tape layout of a population
# changed (tapes are positional). For each repaired defect: revert the fix: commit in a scratch worktree of /repo (outside
# /repo and /verif), run the property's quick check against it, keep the first minimised replay whose clause matches.
# usage: tools/regen_regress.sh [name-filter]
set -u
V=$(cd "$(dirname "$0")/.." && pwd)
while read commit prop name clause; do
  [ -z "$commit" ] && continue
  case "$name" in *"${1:-}"*) ;; *) continue;; esac
  d=$(mktemp -d /tmp/cfdp-rg-XXXXXX)
  git -C /repo worktree add -q --detach "$d/wt" HEAD || { echo "worktree failed"; continue; }
  if git -C /repo show "$commit" -- src | git -C "$d/wt" apply -R 2>/dev/null || git -C /repo show "$commit" -- src | (cd "$d/wt" && patch -R -p1 -F3 -s >/dev/null 2>&1); then
    mkdir -p "$d/out"
    CFDPPY_SRC="$d/wt/src" VERIF_OUT="$d/out" VERIF_BUDGET_S="${REGEN_BUDGET:-40}" "$V/check" "$prop" --tier quick > "$d/log" 2>&1
    f=$(grep -a -A1 "^VIOLATION" "$d/log" | grep -a -B1 "clause=$clause" | grep -a "^VIOLATION" | head -1 | sed 's/.*replay=//')
    if [ -n "$f" ] && [ -f "$f" ]; then
      mkdir -p "$V/regress/$prop"; cp "$f" "$V/regress/$prop/$name.json"; echo "OK   $prop $name <- $commit ($clause)"
    else
      echo "MISS $prop $name <- $commit: no replay with clause $clause ($(grep -a -c '^VIOLATION' "$d/log") violations)"
    fi
  else
    echo "SKIP $prop $name: $commit does not revert cleanly on HEAD"
  fi
  git -C /repo worktree remove --force "$d/wt"; rm -rf "$d"
done <<LIST
6e3c610 C03 lost_eof_ack_finished_race C03
30a20a6 C06 nak_split_metadata_mpl C06.max_packet_len
116d261 C11 shared_tracker_history C11
e4b9b0e C15 foreign_transaction_pdu C15
2b36d0c C14 ignored_limit_fault_redeclared C14.fault_redeclared
3f39043 C10 nul_byte_file_name C10.internal_error
3158776 C15 unack_cancel_no_finished_indication C15.missing
5452ef4 C12 cancel_idle_unfetched_eof C12.a_cancel_raises
618244a C10 half_specified_put_request C10
b8ed225 C14 ignored_rejection_then_checksum C14.raises_after_ignored_fault
1cc1f6a C13 metadata_only_closure_no_check_timer C13
74a76bf C04 abandon_condition_after_user_cancel C04.abandon_condition
5bea313 C17 rename_mkdir_missing_parent_raises C17.unexpected_exception
d4e5600 C12 put_after_cancel_hides_eof C12.b_eof_hidden
8ff442e C10 destination_directory_in_directory C10.internal_error
4d76572 C03 resent_finished_dropped_while_acking C03
LIST
