#!/bin/sh
# tools/mutant.sh <patch-file | -R:<commit>> <check args...>
# Applies a patch (or reverts a commit) in a scratch worktree of /repo outside /repo and /verif,
# runs ./check against it (CFDPPY_SRC), prints the verdict, removes the worktree.
set -u
spec="$1"; shift
d=$(mktemp -d /tmp/cfdp-mut-XXXXXX)
git -C /repo worktree add -q --detach "$d/wt" HEAD || exit 2
case "$spec" in
  -R:*) c="${spec#-R:}"; git -C /repo show "$c" | git -C "$d/wt" apply -R || { echo "revert failed"; rc=2; } ;;
  *) git -C "$d/wt" apply "$spec" || { echo "patch failed"; rc=2; } ;;
esac
if [ "${rc:-0}" = 0 ]; then
  mkdir -p "$d/out"
  CFDPPY_SRC="$d/wt/src" VERIF_OUT="$d/out" /verif/check "$@"
  rc=$?
fi
git -C /repo worktree remove --force "$d/wt"
rm -rf "$d"
exit $rc
