#!/usr/bin/env python3
"""tools/build_seeded.py <wave dir> <letters> <wave json> - copies the evaluated sub-agent changes of one wave
(<wave dir>/Cxx/out/m{1,2,3}.*, <wave dir>/results.json from tools/seed_eval.py) into /verif/seeded/Cxx-<letter>/ with a
meta.json. <wave json> holds {"origin": text, "history": {"Cxx/mN": text}, "sibling": {"Cxx/mN": [[check, first violation]]},
"notes": {"Cxx/mN": text}, "initial_results": path}."""
import json
import os
import shutil
import sys

V = os.path.dirname(os.path.dirname(os.path.abspath(__file__)))
wave, letters, spec = sys.argv[1], sys.argv[2], json.load(open(sys.argv[3]))
R = json.load(open(os.path.join(wave, "results.json")))
R0 = json.load(open(spec["initial_results"])) if spec.get("initial_results") else {}
for key in sorted(R):
    pid, m = key.split("/")
    letter = letters[int(m[1:]) - 1]
    d = os.path.join(V, "seeded", f"{pid}-{letter}")
    os.makedirs(d, exist_ok=True)
    shutil.copy(os.path.join(wave, pid, "out", f"{m}.patch.diff"), os.path.join(d, "patch.diff"))
    shutil.copy(os.path.join(wave, pid, "out", f"{m}_demo.py"), os.path.join(d, "demo.py"))
    meta0 = json.load(open(os.path.join(wave, pid, "out", f"{m}_meta.json")))
    r = R[key]
    own = r["checks"].get(pid, {})
    first = next((x.strip() for x in own.get("first", []) if "clause=" in x), None)
    meta = {
        "property": pid,
        "origin": spec["origin"],
        "summary": meta0.get("summary"), "breaks": meta0.get("breaks"), "needs_to_manifest": meta0.get("needs_to_manifest"),
        "files_touched": meta0.get("files_touched"),
        "confirmed_by_me": {
            "how": "tools/seed_eval.py: scratch worktree of /repo HEAD under /tmp, git apply patch.diff, PYTHONPATH=<wt>/src pytest (78 tests), "
                   "demo.py with and without the change, ./check <property> --tier quick (budget 25 s) with CFDPPY_SRC=<wt>/src; worktree removed afterwards",
            "patch_applies_to_repo_head": r.get("applies"), "tests_with_change": r.get("tests_tail"),
            "demo_rc_with_change": r.get("demo_with_change_rc"), "demo_rc_without_change": r.get("demo_without_change_rc"),
        },
        "check_result": {"check": pid, "caught": own.get("rc") == 1, "first_violation": first},
    }
    sib = [x for x in spec.get("sibling", {}).get(key, []) if x[0] != pid]
    if sib:
        meta["check_result"]["also_caught_by"] = [{"check": c, "first_violation": v} for c, v in sib]
        if own.get("rc") != 1:
            meta["check_result"]["caught_by_other_check"] = True
    if key in spec.get("history", {}):
        meta["history"] = spec["history"][key]
    elif R0.get(key, {}).get("checks", {}).get(pid, {}).get("rc") == 1:
        meta["history"] = "caught by the check as it was when the change arrived"
    if key in spec.get("notes", {}):
        meta["note"] = spec["notes"][key]
    json.dump(meta, open(os.path.join(d, "meta.json"), "w"), indent=1)
print("built", len(R))
