#!/usr/bin/env python3
"""Evaluates seeded breaking changes (produced by independent sub-agents) against the checks.

usage: seed_eval.py <dir with Cxx/out/m<i>.patch.diff ...> [ids...]   -> writes <dir>/results.json
For every change: scratch worktree of /repo HEAD (outside /repo and /verif), apply, run the 78 tests,
run the demonstration with and without the change, run the property's quick check against the
scratch tree (CFDPPY_SRC), remove the worktree.
"""
import json
import os
import subprocess
import sys
import tempfile

PY = "/venv/bin/python"


def sh(cmd, **kw):
    return subprocess.run(cmd, capture_output=True, text=True, **kw)


def evaluate(pid, patch, demo, budget=None, checks=None):
    out = {"property": pid, "patch": patch}
    d = tempfile.mkdtemp(prefix="cfdp-seed-")
    wt = os.path.join(d, "wt")
    try:
        r = sh(["git", "-C", "/repo", "worktree", "add", "-q", "--detach", wt, "HEAD"])
        if r.returncode:
            out["error"] = "worktree: " + r.stderr[-200:]
            return out
        r = sh(["git", "-C", wt, "apply", patch])
        if r.returncode:
            r = sh(["git", "-C", wt, "apply", "-3", patch])
        if r.returncode:
            r = sh(["patch", "-p1", "-F3", "-i", patch], cwd=wt)
        out["applies"] = r.returncode == 0
        if r.returncode:
            out["error"] = "apply: " + (r.stderr + r.stdout)[-300:]
            return out
        env = dict(os.environ, PYTHONPATH=os.path.join(wt, "src"), TMPDIR=d)
        r = sh([PY, "-m", "pytest", "-q", "-p", "no:cacheprovider", "-x"], cwd=wt, env=env, timeout=900)
        out["tests_pass"] = r.returncode == 0
        out["tests_tail"] = r.stdout.strip().splitlines()[-1:] if r.stdout else []
        if demo and os.path.exists(demo):
            r = sh([PY, demo], cwd=d, env=env, timeout=300)
            out["demo_with_change_rc"] = r.returncode
            env0 = dict(os.environ, PYTHONPATH="/repo/src", TMPDIR=d)
            r0 = sh([PY, demo], cwd=d, env=env0, timeout=300)
            out["demo_without_change_rc"] = r0.returncode
        out["checks"] = {}
        for c in checks or [pid]:
            envc = dict(os.environ, CFDPPY_SRC=os.path.join(wt, "src"), VERIF_OUT=os.path.join(d, "out"))
            cmd = ["/verif/check", c, "--tier", "quick"] + (["--budget", str(budget)] if budget else [])
            r = sh(cmd, env=envc, timeout=1200)
            lines = [l for l in r.stdout.splitlines() if l.startswith("VIOLATION") or l.strip().startswith("clause=")]
            out["checks"][c] = {"rc": r.returncode, "first": [l[:400] for l in lines[:2]]}
        return out
    finally:
        sh(["git", "-C", "/repo", "worktree", "remove", "--force", wt])
        sh(["rm", "-rf", d])


def main():
    root = sys.argv[1]
    ids = sys.argv[2:] or sorted(x for x in os.listdir(root) if x.startswith("C") and os.path.isdir(os.path.join(root, x)))
    resf = os.path.join(root, "results.json")
    results = json.load(open(resf)) if os.path.exists(resf) else {}
    for pid in ids:
        od = os.path.join(root, pid, "out")
        if not os.path.isdir(od):
            continue
        for m in sorted(f for f in os.listdir(od) if f.endswith(".patch.diff")):
            key = f"{pid}/{m.split('.')[0]}"
            patch = os.path.join(od, m)
            demo = os.path.join(od, m.split(".")[0] + "_demo.py")
            res = evaluate(pid, patch, demo, budget=os.environ.get("SEED_BUDGET"))
            results[key] = res
            print(key, json.dumps({k: v for k, v in res.items() if k not in ("patch",)})[:600], flush=True)
            json.dump(results, open(resf, "w"), indent=1)


if __name__ == "__main__":
    main()
