#!/usr/bin/env python3
"""Regenerates /verif/MANIFEST.json from the table below (keeps it valid at all times)."""
import json
import os

V = os.path.dirname(os.path.dirname(os.path.abspath(__file__)))
ALL = [json.loads(l)["id"] for l in open(os.path.join(V, "properties.jsonl"))]

TECH = "deterministic simulation with fault injection: seeded search over decision tapes"
NOTE = (
    "trusted base: the simulator (cfdpsim), the reference models, the spacepackets codec and Countdown, CPython; "
    "sampling, not proof: a clean batch is evidence only for the schedules, faults and configurations explored"
)

CHECKS = {
    # id: (level text, design ref, extra technique words)
    "C01": ("safety oracle at the instant of every success report over unbounded fault schedules (drop/dup/delay/reorder/"
            "bit-flip/partition/stall/clock-jump/restart/filestore rejection), tape-chosen pacing, optional earlier delivery of the same "
            "file through the same handlers and filestore; independent file comparison, collision excuse only after a fired bit flip", "5 C01, 12", "invariant at report time"),
    "C02": ("bounded liveness + completion oracle over the full configuration swarm and tape-decided pacing on a perfect link (random poll "
            "intervals; event-driven caller with a sender check interval below the round trip); a quarter of the "
            "runs on handlers that already completed a transfer (any mode / closure) and idled beyond every timer interval; in a sixth the sending "
            "user submits a further put request while busy; epilogues: two back-to-back transfers by a user who submits before fetching, and 257 "
            "consecutive small transfers with 1-byte sequence numbers (id re-use)", "5 C02, 12", "quiescence oracle"),
    "C03": ("bounded liveness after at most K link faults with limits > K, history shell (closed transactions acknowledged with status TERMINATED / "
            "UNDEFINED / UNRECOGNIZED); regular, random and ticked pacing (timer / PDU arrival races); no fault may be declared and no unsuccessful "
            "indication delivered; before the seeded search every K=1 schedule and (thorough: every, quick: every third) K=2 schedule on small files is executed (sweep)", "5 C03, 12", "bounded-liveness oracle; K<=2 schedule sweep + seeded search"),
    "C07": ("sender stream model judged on every emitted PDU in fault-free, bounded-fault and cancel populations; transient read errors of the "
            "sender's filestore (the user keeps calling) in a quarter of the faulty runs; refused put requests for another file while busy; file sizes up "
            "to 70 KB / 520 segments and a sparse source file just above 4 GiB (large-file PDU format)", "5 C07, 12", "in-situ invariant vs SenderStream model + storage fault injection"),
    "C09": ("independent reference checksums compared in situ on every EOF (incl. cancel-time prefixes and re-sent EOFs), completion decision and "
            "verify_checksum call; the sending user re-computes the sent prefix with a per-call chunk-length knob and a second checksum type on the same "
            "filestore object; stand-alone prefix x chunk enumeration is NOT reached (DESIGN 6)", "5 C09, 6, 12", "in-situ invariant vs reference checksums"),
    "C10": ("robustness oracle over synthetic PDU / API / time-step histories against all four handlers in every reachable step", "5 C10", "synthetic peer, exception + state-unchanged oracle"),
    "C04": ("RetryModel (explicit counters and integer-millisecond deadlines of the three retry procedures) judged at every "
            "handler call while one or both link directions go silent at tape-chosen points, permanently or for a while; regular and ticked "
            "pacing (progress handed over in the call that finds the timer expired); source file vanishing from the sender's filestore "
            "after the EOF (bounded end only)", "5 C04, 12", "timing oracle on the virtual clock"),
    "C19": ("PutModel judged on every put request (valid / invalid / premature by schedule) issued between any two handler calls on two "
            "source handlers sharing one sequence provider, two remote-entity configurations, 3x3 request-level mode / closure "
            "settings; header mode, Metadata closure flag, segment length, CRC flag, id widths, sequence numbers judged on every "
            "emitted PDU; twin run without the premature requests must produce the same trace", "5 C19", "PutModel + twin-run differential"),
    "C20": ("routing table and routing/admission agreement judged on every routed PDU incl. synthetic kinds and header variants; "
            "misroute and bad-status faults; the finite table (kind x direction flag x mode x CRC x id width x handler state x receiving entity x routed / misrouted, 4608 cells) is swept completely before the seeded search", "5 C20, 12", "in-situ oracle + misroute fault; complete table sweep"),
    "C11": ("differential: the same transaction (own slice of the decision tape) executed on fresh handlers, after a tape-chosen "
            "history of completed / cancelled / faulted / abandoned / reset / junk-fed transactions on the same handler objects, beside a "
            "sibling pair of handler instances, and beside a second source / destination handler on the same two entities (shared MIB, user, "
            "filestore, sequence provider), all interleaved by the same scheduler; normalised observable traces and final file must be equal", "5 C11, 12", "twin-run differential on exactly repeatable executions"),
    "C12": ("clauses (a)-(e) judged on cancel requests (right / wrong id) injected between any two handler calls on either side, "
            "both modes, closure and disposition settings, optional link faults; epilogue with a user who issues cancel requests before fetching "
            "the PDUs of the previous call", "5 C12, 12", "cancel-point search"),
    "C13": ("check-timer RetryModel judged at every call while the link makes the EOF overtake tape-chosen File Data PDUs and "
            "releases them relative to the expiries; separate sender scenario (Finished PDU on time / late / never); regular, random, ticked, "
            "lazy and event-driven pacing, so that late PDUs also arrive in the call that finds the check timer expired", "5 C13, 12", "timing oracle on the virtual clock"),
    "C14": ("FaultTableModel judged at every call over nine fault-provoking scenarios (incl. a destination file that vanishes before the checksum "
            "is verified) x handler codes for every condition of both entities; an ignored limit fault may be declared again only after a "
            "further full timer interval; regular and ticked pacing", "5 C14, 12", "fault scenario x handler table search"),
    "C05": ("whole filestore tree (names, types, contents) compared with a SparseFile / tree model after every handler call while a "
            "synthetic peer throws arbitrary well-formed PDU histories, timer advances, cancels and consecutive transactions at "
            "the destination handler; native (tmpfs sandbox with decoys) and in-memory filestore; separate population with "
            "tape-decided write / create / truncate rejections", "5 C05", "refinement vs write model after every call"),
    "C06": ("IntervalSet model of the bytes stored so far judged on every NAK PDU a real destination handler emits while a scripted "
            "sender delivers a grid-segmented file in tape-chosen order with loss / duplication / displacement and answers NAK "
            "sequences across NAK-timer expiries; exactness on timer-driven re-issues, sandwich inclusion on the first sequence", "5 C06", "refinement vs IntervalSet model"),
    "C16": ("every tape of the fault-free / bounded-fault / cancel populations executed over NativeFilestore and over an in-memory "
            "filestore: host file-system entry points audited during every handler API call, traces of the two executions "
            "compared, host sandbox compared before / after the in-memory run; the harness's filestore objects are falsy when idle; in a quarter "
            "of the runs the filestore object is re-mounted on the users after the handlers were built (tripwire on the old object)", "5 C16, 12", "syscall audit + twin-run differential"),
    "C17": ("operation histories on the real NativeFilestore in a tmpfs sandbox (payloads up to 6 KB, offsets up to 70 KB) judged after every operation against a dict-based "
            "file-system model (status code / data / exception, whole tree and contents); separate population with OSErrors "
            "injected at the k-th host access of an operation: never success, tree unchanged", "5 C17", "refinement vs FsModel + storage fault injection"),
    "C18": ("shadow IntervalSet judged on every LostSegmentTracker operation the destination handler issues under simulated arrival "
            "histories and fault schedules (grid, bounded-fault, chaos, synthetic-peer populations) and on tape-drawn operation histories issued "
            "directly on one or two interleaved tracker objects; only operations inside the property's preconditions are judged; the "
            "exhaustive-for-small-N part of the quantifier is NOT reached (DESIGN 6)", "5 C18, 6, 12", "refinement vs shadow IntervalSet (in situ + direct operation histories)"),
    "C08": ("every NAK PDU reaching the real source handler (from the real receiver under link faults, or synthetic with requests "
            "around the live progress / file size, valid and invalid) judged per call: emitted File Data PDUs tile the valid "
            "requests exactly (multiset equality), Metadata byte-identical for (0,0), invalid requests raise the library NAK "
            "error and emit nothing outside valid requests or the file; SenderStream model checks that the original stream and "
            "the EOF are unchanged afterwards; files up to 520 segments with NAKs for everything sent so far; an early Finished PDU carrying the "
            "peer's own CRC / large-file flag", "5 C08, 12", "per-call refinement + stream model"),
    "C15": ("indication model judged on every handler call in six populations (fault-free incl. preludes, bounded-fault, cancel, chaos, silent peer, "
            "synthetic peer); 2^4 switches per entity and 7 message-list variants; receiver order, Finished PDU vs indication, transaction ids of "
            "indications vs PDUs", "5 C15, 12", "in-situ invariant vs IndicationModel"),
}
NOT_BUILT = "check not built yet (work in progress, see DESIGN.md section 5)"

m = {
    "version": 1,
    "setup_cmd": "/venv/bin/python -c \"import sys; sys.path.insert(0,'/repo/src'); import cfdppy, spacepackets; print('ok')\"",
    "hooks": {
        "guard": "CFDPPY_VERIF",
        "enable": "no hook in /repo is needed: every seam (clock via spacepackets.countdown.time_ms, transport, filestore, "
                  "check-timer provider, sequence provider) is reachable from outside; checks import cfdppy from /repo/src "
                  "(or CFDPPY_SRC for scratch copies)",
        "baseline_off_cmd": "cd /repo && /venv/bin/python -m pytest -ra -q -p no:cacheprovider --timeout=900 --continue-on-collection-errors",
        "source_commits": [],
        "add_only": True,
    },
    "engines": [
        {"name": "cfdpsim", "path": "cfdpsim/", "serves_properties": sorted(CHECKS),
         "kind_free_text": "single-process discrete-event simulator: decision tape, virtual clock, byte link with faults, entity shells around the real handlers, in-memory and fault-injecting filestores, synthetic peer, seeded parallel search, tape minimiser, replay"},
    ],
    "checks": [],
    "notes": "exit 0 = held on everything explored; exit 1 + 'VIOLATION property=<id> replay=<path>'; exit 2 = harness error "
             "(never a verdict). Genuine defects found so far were repaired by fix: commits in /repo and are listed in known_findings.json.",
    "not_applicable": [],
}
for pid in ALL:
    if pid in CHECKS:
        text, ref, tech = CHECKS[pid]
        m["checks"].append({
            "property_id": pid,
            "quick_cmd": f"./check {pid} --tier quick",
            "thorough_cmd": f"./check {pid} --tier thorough",
            "evidence_file": f"evidence/{pid}.json",
            "replay_cmd_template": "./check --replay {path}",
            "engine": "cfdpsim",
            "level_claimed": {"category": "exploration", "text": text, "design_ref": "DESIGN.md section " + ref},
            "level_note": NOTE,
            "technique": TECH + "; " + tech,
        })
    else:
        m["not_applicable"].append({"property_id": pid, "reason": NOT_BUILT})
json.dump(m, open(os.path.join(V, "MANIFEST.json"), "w"), indent=1)
print("checks:", [c["property_id"] for c in m["checks"]])
