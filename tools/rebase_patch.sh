#!/bin/sh
# tools/rebase_patch.sh <patch files...> - rewrites patches that no longer apply to /repo HEAD (3-way merge, then fuzz),
# in a scratch worktree outside /repo and /verif; reports what could not be re-based.
d=$(mktemp -d /tmp/cfdp-rb-XXXXXX)
git -C /repo worktree add -q --detach "$d/wt" HEAD || exit 2
cd "$d/wt"
for p in "$@"; do
  git reset -q --hard; git clean -fdq
  git apply --check "$p" 2>/dev/null && continue
  if git apply -3 "$p" >/dev/null 2>&1 && ! git diff --name-only --diff-filter=U | grep -q .; then
    git reset -q; git diff > "$p.new"
  elif git reset -q --hard && patch -p1 -F3 -s -i "$p" >/dev/null 2>&1; then
    find . -name "*.orig" -delete; git diff > "$p.new"
  else
    echo "FAIL $p"; continue
  fi
  git reset -q --hard; git clean -fdq
  if git apply --check "$p.new"; then mv "$p.new" "$p"; echo "rebased $p"; else rm -f "$p.new"; echo "FAIL $p"; fi
done
cd /; git -C /repo worktree remove --force "$d/wt"; rm -rf "$d"
