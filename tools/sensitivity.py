#!/usr/bin/env python3
"""./tools/sensitivity.py [ids...] - runs every seeded breaking change kept under /verif/seeded/<id>/
(patch.diff, demo, meta.json) against the quick check of its property (and of the properties listed
in meta.json "also_check") in a scratch worktree of /repo HEAD outside /repo and /verif, and writes
the caught / missed table to evidence/sensitivity.json. Exit 0 always (it is a measurement)."""
import json
import os
import subprocess
import sys
import tempfile
import time

V = os.path.dirname(os.path.dirname(os.path.abspath(__file__)))


def sh(cmd, **kw):
    return subprocess.run(cmd, capture_output=True, text=True, **kw)


def run_one(sid, meta, budget):
    d = tempfile.mkdtemp(prefix="cfdp-sens-")
    wt = os.path.join(d, "wt")
    out = {"seeded": sid, "property": meta["property"], "checks": {}}
    try:
        if sh(["git", "-C", "/repo", "worktree", "add", "-q", "--detach", wt, "HEAD"]).returncode:
            out["error"] = "worktree"
            return out
        patch = os.path.join(V, "seeded", sid, "patch.diff")
        r = sh(["git", "-C", wt, "apply", patch])
        if r.returncode:
            r = sh(["patch", "-p1", "-F3", "-i", patch], cwd=wt)
        if r.returncode:
            out["error"] = "patch does not apply: " + (r.stderr + r.stdout)[-200:]
            return out
        for c in [meta["property"]] + list(meta.get("also_check", [])):
            env = dict(os.environ, CFDPPY_SRC=os.path.join(wt, "src"), VERIF_OUT=os.path.join(d, "out"))
            t0 = time.time()
            cmd = [os.path.join(V, "check"), c, "--tier", "quick"] + (["--budget", str(budget)] if budget else [])
            r = sh(cmd, env=env, timeout=1800)
            lines = [l.strip() for l in r.stdout.splitlines() if l.strip().startswith("clause=")]
            out["checks"][c] = {"rc": r.returncode, "caught": r.returncode == 1, "wall_s": round(time.time() - t0, 1),
                                "first_clause": lines[0][:300] if lines else None}
        return out
    finally:
        sh(["git", "-C", "/repo", "worktree", "remove", "--force", wt])
        sh(["rm", "-rf", d])


def main():
    sd = os.path.join(V, "seeded")
    ids = sys.argv[1:] or sorted(os.listdir(sd))
    budget = os.environ.get("SENS_BUDGET")
    rows = []
    for sid in ids:
        mp = os.path.join(sd, sid, "meta.json")
        if not os.path.exists(mp):
            continue
        meta = json.load(open(mp))
        row = run_one(sid, meta, budget)
        rows.append(row)
        own = row["checks"].get(meta["property"], {})
        print(f"{sid}: {'CAUGHT' if own.get('caught') else 'MISSED'} by {meta['property']} {own.get('first_clause') or row.get('error', '')}"[:260], flush=True)
    doc = {"at_repo_head": sh(["git", "-C", "/repo", "rev-parse", "--short", "HEAD"]).stdout.strip(), "rows": rows,
           "caught": sum(1 for r in rows if r["checks"].get(r["property"], {}).get("caught")), "total": len(rows)}
    os.makedirs(os.path.join(V, "evidence"), exist_ok=True)
    json.dump(doc, open(os.path.join(V, "evidence", "sensitivity.json"), "w"), indent=1)
    print(f"caught {doc['caught']} of {doc['total']}")


if __name__ == "__main__":
    main()
