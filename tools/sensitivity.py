#!/usr/bin/env python3
"""./tools/sensitivity.py [ids...] - runs every seeded breaking change kept under /verif/seeded/<id>/
(patch.diff, demo, meta.json) against the quick check of its property (and of the properties listed
in meta.json "also_check") in a scratch worktree of /repo HEAD outside /repo and /verif, and writes
the caught / missed table to evidence/sensitivity.json. Exit 0 always (it is a measurement)."""
import json
import os
import subprocess
import sys
import tempfile
import time

V = os.path.dirname(os.path.dirname(os.path.abspath(__file__)))


def sh(cmd, **kw):
    return subprocess.run(cmd, capture_output=True, text=True, **kw)


def run_one(sid, meta, budget):
    d = tempfile.mkdtemp(prefix="cfdp-sens-")
    wt = os.path.join(d, "wt")
    out = {"seeded": sid, "property": meta["property"], "checks": {}}
    try:
        if sh(["git", "-C", "/repo", "worktree", "add", "-q", "--detach", wt, "HEAD"]).returncode:
            out["error"] = "worktree"
            return out
        patch = os.path.join(V, "seeded", sid, "patch.diff")
        r = sh(["git", "-C", wt, "apply", patch])
        if r.returncode:
            r = sh(["patch", "-p1", "-F3", "-i", patch], cwd=wt)
        if r.returncode:
            out["error"] = "patch does not apply: " + (r.stderr + r.stdout)[-200:]
            return out
        # the property's own check first; the checks recorded as "also caught by" only if it misses
        others = list(meta.get("also_check", [])) + [x["check"] for x in meta.get("check_result", {}).get("also_caught_by", [])]
        for c in [meta["property"]] + [x for i, x in enumerate(others) if x != meta["property"] and x not in others[:i]]:
            if c != meta["property"] and out["checks"].get(meta["property"], {}).get("caught"):
                break
            env = dict(os.environ, CFDPPY_SRC=os.path.join(wt, "src"), VERIF_OUT=os.path.join(d, "out"))
            t0 = time.time()
            cmd = [os.path.join(V, "check"), c, "--tier", "quick"] + (["--budget", str(budget)] if budget else [])
            r = subprocess.run(cmd, capture_output=True, text=True, errors="replace", env=env, timeout=1800)
            lines = [l.strip() for l in r.stdout.splitlines() if l.strip().startswith("clause=")]
            out["checks"][c] = {"rc": r.returncode, "caught": r.returncode == 1, "wall_s": round(time.time() - t0, 1),
                                "first_clause": lines[0][:300] if lines else None}
        return out
    finally:
        sh(["git", "-C", "/repo", "worktree", "remove", "--force", wt])
        sh(["rm", "-rf", d])


def main():
    sd = os.path.join(V, "seeded")
    ids = sys.argv[1:] or sorted(os.listdir(sd))
    budget = os.environ.get("SENS_BUDGET")
    rows = []
    merged = None
    if sys.argv[1:] and os.environ.get("SENS_MERGE"):
        # re-measure the given changes only and replace their rows in the existing table (top-level extras are kept)
        merged = json.load(open(os.path.join(V, "evidence", "sensitivity.json")))
    for sid in ids:
        mp = os.path.join(sd, sid, "meta.json")
        if not os.path.exists(mp):
            continue
        meta = json.load(open(mp))
        row = run_one(sid, meta, budget)
        rows.append(row)
        own = row["checks"].get(meta["property"], {})
        anyc = [c for c, v in row["checks"].items() if v.get("caught")]
        row["caught_by"] = anyc
        if not anyc:
            row["why_not"] = meta.get("history")
        print(f"{sid}: {'CAUGHT' if own.get('caught') else ('caught by ' + anyc[0] if anyc else 'MISSED')} {meta['property']} "
              f"{(row['checks'][anyc[0]].get('first_clause') if anyc else '') or row.get('error', '')}"[:260], flush=True)
        if merged is None:
            write(rows)
    if merged is not None:
        new = {r["seeded"]: r for r in rows}
        for r in new.values():
            r["remeasured"] = "later than the full table, at /repo " + sh(["git", "-C", "/repo", "rev-parse", "--short", "HEAD"]).stdout.strip()
        extras = {k: v for k, v in merged.items() if k in ("second_attempts_for_misses_at_15s", "note")}
        rows = [new.pop(r["seeded"], r) for r in merged["rows"]] + list(new.values())
        rows.sort(key=lambda r: r["seeded"])
    doc = write(rows)
    if merged is not None:
        doc.update(extras)
        json.dump(doc, open(os.path.join(V, "evidence", "sensitivity.json"), "w"), indent=1)
    print(f"caught by the property's own check {doc['caught']}, by some check {doc['caught_by_some_check']} of {doc['total']}")


def write(rows):
    doc = {"at_repo_head": sh(["git", "-C", "/repo", "rev-parse", "--short", "HEAD"]).stdout.strip(),
           "budget_s_per_check": os.environ.get("SENS_BUDGET") or "quick default",
           "caught": sum(1 for r in rows if r["checks"].get(r["property"], {}).get("caught")),
           "caught_by_some_check": sum(1 for r in rows if r.get("caught_by")),
           "not_caught": [{"seeded": r["seeded"], "why": r.get("why_not")} for r in rows if not r.get("caught_by")],
           "total": len(rows), "rows": rows}
    os.makedirs(os.path.join(V, "evidence"), exist_ok=True)
    json.dump(doc, open(os.path.join(V, "evidence", "sensitivity.json"), "w"), indent=1)
    return doc


if __name__ == "__main__":
    main()
