"""Small reference models used as oracles (DESIGN 3). Nothing here imports cfdppy."""
from __future__ import annotations

import zlib

# ---------------------------------------------------------------------------------------------
# Checksums (independent of crcmod)

_CRC32C_TABLE = []
for _i in range(256):
    _c = _i
    for _ in range(8):
        _c = (_c >> 1) ^ 0x82F63B78 if _c & 1 else _c >> 1
    _CRC32C_TABLE.append(_c)


def crc32c(data: bytes) -> int:
    c = 0xFFFFFFFF
    t = _CRC32C_TABLE
    for b in data:
        c = t[(c ^ b) & 0xFF] ^ (c >> 8)
    return c ^ 0xFFFFFFFF


assert crc32c(b"123456789") == 0xE3069283
assert zlib.crc32(b"123456789") == 0xCBF43926

# spacepackets.cfdp.defs.ChecksumType values
CK_MODULAR = 0
CK_CRC32_PROXIMITY = 1
CK_CRC32C = 2
CK_CRC32 = 3
CK_NULL = 15


def modular(data: bytes) -> int:
    s = 0
    n = len(data)
    full = n - (n % 4)
    for i in range(0, full, 4):
        s += int.from_bytes(data[i : i + 4], "big")
    if n % 4:
        s += int.from_bytes(data[full:] + b"\0" * (4 - n % 4), "big")
    return s & 0xFFFFFFFF


def ref_checksum(ck_type: int, data: bytes) -> bytes:
    ck_type = int(ck_type)
    if ck_type == CK_NULL:
        return b"\0\0\0\0"
    if ck_type == CK_CRC32:
        return (zlib.crc32(data) & 0xFFFFFFFF).to_bytes(4, "big")
    if ck_type == CK_CRC32C:
        return crc32c(data).to_bytes(4, "big")
    if ck_type == CK_MODULAR:
        return modular(data).to_bytes(4, "big")
    raise ValueError(ck_type)


# ---------------------------------------------------------------------------------------------


class IntervalSet:
    """Exact set of integers as sorted disjoint half-open ranges."""

    __slots__ = ("r",)

    def __init__(self, ranges=()):
        self.r: list[tuple[int, int]] = []
        for a, b in ranges:
            self.add(a, b)

    def copy(self) -> "IntervalSet":
        n = IntervalSet()
        n.r = list(self.r)
        return n

    def add(self, a: int, b: int) -> None:
        if b <= a:
            return
        out = []
        placed = False
        for x, y in self.r:
            if y < a:
                out.append((x, y))
            elif b < x:
                if not placed:
                    out.append((a, b))
                    placed = True
                out.append((x, y))
            else:
                a = min(a, x)
                b = max(b, y)
        if not placed:
            out.append((a, b))
        self.r = out

    def remove(self, a: int, b: int) -> None:
        if b <= a:
            return
        out = []
        for x, y in self.r:
            if y <= a or b <= x:
                out.append((x, y))
            else:
                if x < a:
                    out.append((x, a))
                if b < y:
                    out.append((b, y))
        self.r = out

    def overlaps(self, a: int, b: int) -> bool:
        if b <= a:
            return False
        return any(x < b and a < y for x, y in self.r)

    def contains_range(self, a: int, b: int) -> bool:
        if b <= a:
            return True
        return any(x <= a and b <= y for x, y in self.r)

    def minus(self, other: "IntervalSet") -> "IntervalSet":
        n = self.copy()
        for a, b in other.r:
            n.remove(a, b)
        return n

    def union(self, other: "IntervalSet") -> "IntervalSet":
        n = self.copy()
        for a, b in other.r:
            n.add(a, b)
        return n

    def issubset(self, other: "IntervalSet") -> bool:
        return not self.minus(other).r

    def size(self) -> int:
        return sum(b - a for a, b in self.r)

    def __eq__(self, o) -> bool:
        return isinstance(o, IntervalSet) and self.r == o.r

    def __bool__(self) -> bool:
        return bool(self.r)

    def __repr__(self) -> str:
        return "{" + ",".join(f"[{a},{b})" for a, b in self.r) + "}"


class SparseFile:
    """Write-model of a file: zero filled, write at offset, truncate."""

    __slots__ = ("data",)

    def __init__(self):
        self.data = bytearray()

    def truncate(self) -> None:
        self.data = bytearray()

    def write(self, off: int, b: bytes) -> None:
        if not b:
            return
        if off > len(self.data):
            self.data.extend(b"\0" * (off - len(self.data)))
        self.data[off : off + len(b)] = b

    def bytes(self) -> bytes:
        return bytes(self.data)
