"""Deterministic simulation with fault injection for us-irs/cfdp-py.

Import order matters: `cfdpsim.env` puts the working tree of cfdp-py on sys.path (CFDPPY_SRC or
/repo/src) and installs the virtual clock seam before anything imports cfdppy.
"""
from . import env  # noqa: F401
