"""Entry point (run as a script, never with -m, so no module is loaded twice)."""
import os
import sys

if os.environ.get("PYTHONHASHSEED") != "0" and not os.environ.get("VERIF_KEEP_HASHSEED"):
    os.environ["PYTHONHASHSEED"] = "0"
    os.execv(sys.executable, [sys.executable] + sys.argv)

sys.path.insert(0, os.path.dirname(os.path.dirname(os.path.abspath(__file__))))

from cfdpsim.runner import main  # noqa: E402

if __name__ == "__main__":
    sys.exit(main())
