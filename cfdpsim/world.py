"""The simulated world: entities (shell + real handlers), link, scheduler, recorders, trace."""
from __future__ import annotations

import collections
import copy
import hashlib
import heapq
import sys
import traceback
from pathlib import Path

from . import env
from .models import ref_checksum
from .stores import FaultyFilestore, MemFilestore, NativeStoreH, enter_sandbox, leave_sandbox
from .tape import Tape

from spacepackets.cfdp import (
    ChecksumType,
    ConditionCode,
    CrcFlag,
    Direction,
    PduType,
    TransmissionMode,
)
from spacepackets.cfdp.pdu import AckPdu, DirectiveType, TransactionStatus
from spacepackets.cfdp.pdu.helper import PduFactory
from spacepackets.countdown import Countdown
from spacepackets.seqcount import ProvidesSeqCount
from spacepackets.util import UnsignedByteField

import cfdppy.exceptions as cex
from cfdppy import CfdpState
from cfdppy.handler.common import PacketDestination, get_packet_destination
from cfdppy.handler.dest import DestHandler, acknowledge_inactive_eof_pdu
from cfdppy.handler.source import SourceHandler
from cfdppy.mib import (
    CheckTimerProvider,
    DefaultFaultHandlerBase,
    IndicationCfg,
    LocalEntityCfg,
    RemoteEntityCfg,
    RemoteEntityCfgTable,
)
from cfdppy.request import PutRequest
from cfdppy.user import CfdpUserBase

LIB_EXC = tuple(
    v for v in vars(cex).values() if isinstance(v, type) and issubclass(v, Exception) and v.__module__ == cex.__name__
)

ACK = TransmissionMode.ACKNOWLEDGED
UNACK = TransmissionMode.UNACKNOWLEDGED

CK_TYPES = [ChecksumType.CRC_32, ChecksumType.CRC_32C, ChecksumType.MODULAR, ChecksumType.NULL_CHECKSUM]


# ---------------------------------------------------------------------------------------------
# PDU decoding (receive side of the link) and canonical rendering


def parse_pdu(raw: bytes):
    """bytes -> PDU object, or None if the codec rejects it (= lost PDU). Includes the two shims
    for spacepackets 0.26.1 described in DESIGN 1."""
    try:
        pdu = PduFactory.from_raw(raw)
    except Exception:
        return None
    if pdu is None:
        return None
    if pdu.pdu_type == PduType.FILE_DIRECTIVE and pdu.directive_type == DirectiveType.EOF_PDU:
        cc = int(pdu.condition_code)
        if cc > 15:
            cc >>= 4
        try:
            pdu.condition_code = ConditionCode(cc)
        except ValueError:
            return None
    return pdu


def tid_of(pdu) -> tuple:
    return (pdu.source_entity_id.value, pdu.transaction_seq_num.value)


def tid_t(tid) -> tuple | None:
    if tid is None:
        return None
    return (tid.source_id.value, tid.seq_num.value)


def _floc(fl):
    if fl is None:
        return None
    try:
        return int.from_bytes(bytes(fl.entity_id), "big")
    except Exception:
        try:
            return int.from_bytes(bytes(fl.value), "big")
        except Exception:
            return repr(fl)


def pdu_kind(pdu) -> str:
    if pdu.pdu_type == PduType.FILE_DATA:
        return "FD"
    return {
        DirectiveType.METADATA_PDU: "MD",
        DirectiveType.EOF_PDU: "EOF",
        DirectiveType.FINISHED_PDU: "FIN",
        DirectiveType.ACK_PDU: "ACK",
        DirectiveType.NAK_PDU: "NAK",
        DirectiveType.KEEP_ALIVE_PDU: "KA",
        DirectiveType.PROMPT_PDU: "PROMPT",
    }[pdu.directive_type]


def _fname(pdu, attr):
    """File name field of a Metadata PDU (a name that is not UTF-8 is shown as its bytes' repr)."""
    lv = getattr(pdu, attr)
    if lv.value_len == 0:
        return None
    try:
        return bytes(lv.value).decode()
    except UnicodeDecodeError:
        return repr(bytes(lv.value))


def pdu_info(pdu) -> tuple:
    """Canonical decisive fields of a PDU (without header)."""
    k = pdu_kind(pdu)
    if k == "FD":
        return (k, pdu.offset, len(pdu.file_data))
    if k == "MD":
        opts = pdu.options_as_tlv()
        return (
            k,
            pdu.file_size,
            _fname(pdu, "_source_file_name_lv"),
            _fname(pdu, "_dest_file_name_lv"),
            int(pdu.checksum_type),
            bool(pdu.closure_requested),
            0 if not opts else len(opts),
        )
    if k == "EOF":
        return (k, int(pdu.condition_code), pdu.file_size, bytes(pdu.file_checksum).hex(), _floc(pdu.fault_location))
    if k == "FIN":
        return (
            k,
            int(pdu.condition_code),
            int(pdu.delivery_code),
            int(pdu.file_status),
            _floc(pdu.fault_location),
        )
    if k == "ACK":
        return (
            k,
            int(pdu.directive_code_of_acked_pdu),
            int(pdu.condition_code_of_acked_pdu),
            int(pdu.transaction_status),
        )
    if k == "NAK":
        return (k, pdu.start_of_scope, pdu.end_of_scope, tuple(tuple(x) for x in pdu.segment_requests))
    if k == "KA":
        return (k, pdu.progress)
    return (k,)


def pdu_hdr(pdu) -> tuple:
    h = pdu.pdu_header
    return (
        int(h.direction),
        int(h.transmission_mode),
        int(h.crc_flag),
        (h.source_entity_id.value, h.source_entity_id.byte_len),
        (h.dest_entity_id.value, h.dest_entity_id.byte_len),
        (h.transaction_seq_num.value, h.transaction_seq_num.byte_len),
        int(h.file_flag),
    )


# ---------------------------------------------------------------------------------------------
# recorders


class ExcInfo:
    __slots__ = ("cls", "is_lib", "func", "msg", "obj")

    def __init__(self, e: BaseException):
        self.cls = type(e).__name__
        self.is_lib = isinstance(e, LIB_EXC)
        self.msg = str(e)[:120]
        self.obj = e
        self.func = "?"
        tb = traceback.extract_tb(e.__traceback__)
        for fr in reversed(tb):
            if fr.filename.startswith(env.SRC):
                self.func = fr.name
                break

    def __repr__(self):
        return f"{self.cls}@{self.func}"


class Emitted:
    __slots__ = ("raw", "pdu", "kind", "info", "obj_len")

    def __init__(self, raw, pdu, obj_len):
        self.raw = raw
        self.pdu = pdu  # re-parsed from raw (fresh object), None if unparsable
        self.kind = pdu_kind(pdu) if pdu is not None else "??"
        self.info = pdu_info(pdu) if pdu is not None else ("??", raw.hex()[:40])
        self.obj_len = obj_len


class Snap:
    """Public observations of a handler."""

    __slots__ = ("state", "step", "tid", "progress", "file_size", "nready", "extra")

    def __init__(self, h):
        self.state = h.state.name
        self.step = h.step.name
        self.tid = tid_t(h.transaction_id)
        self.progress = h.progress
        self.file_size = h.file_size
        self.nready = h.num_packets_ready
        if isinstance(h, DestHandler):
            self.extra = (
                h.nak_activity_counter,
                h.positive_ack_counter,
                h.current_check_counter,
                h.deferred_lost_segment_procedure_active,
            )
        else:
            self.extra = (h.positive_ack_counter,)

    def key(self) -> tuple:
        return (self.state, self.step, self.tid, self.progress, self.file_size, self.nready, self.extra)

    @property
    def busy(self) -> bool:
        return self.state != "IDLE"


class CallRec:
    __slots__ = (
        "seq", "t", "ent", "hk", "op", "inb", "inb_kind", "inb_info", "inb_raw", "pre", "post",
        "emitted", "inds", "faults", "exc", "ret", "arg", "qlen_entry", "tags", "vfs_rejects",
    )

    def __init__(self):
        self.emitted = []
        self.inds = []
        self.faults = []
        self.exc = None
        self.ret = None
        self.inb = None
        self.inb_kind = None
        self.inb_info = None
        self.inb_raw = None
        self.arg = None
        self.tags = ()
        self.vfs_rejects = 0

    def render(self) -> str:
        s = f"#{self.seq} t={self.t} {self.ent}.{self.hk} {self.op}"
        if self.inb_info is not None:
            s += f" <-{self.inb_info}"
        if self.op in ("put", "cancel"):
            s += f" ret={self.ret}"
        s += f" [{self.pre.step}->{self.post.step}]"
        if self.emitted:
            s += " ->" + " ".join(str(e.info) for e in self.emitted)
        if self.inds:
            s += " ind:" + " ".join(str(i[:2]) if i[0] != "finished" else str(i[:3]) for i in self.inds)
        if self.faults:
            s += " flt:" + " ".join(str(f) for f in self.faults)
        if self.exc is not None:
            s += f" EXC:{self.exc!r}"
        if self.tags:
            s += " " + ",".join(self.tags)
        return s


class RecUser(CfdpUserBase):
    """Records every indication (copies of the arguments) into the current call record."""

    def __init__(self, world, ent, vfs):
        super().__init__(vfs=vfs)
        self.w = world
        self.ent = ent
        self.hooks = []  # callables(name, payload) invoked synchronously ("at that moment")

    def _rec(self, name, *payload):
        item = (name,) + payload
        c = self.w.cur_call
        if c is not None:
            c.inds.append(item)
        else:
            self.w.stray.append((self.ent.name, item))
        for hk in self.hooks:
            hk(self.ent, item)

    def _keep(self, tid) -> None:
        """The user keeps the TransactionId OBJECT it was handed (a history of transactions); what it said at that moment
        must stay what it says (checked after every handler call)."""
        if tid is not None and len(self.w.kept_tids) < 64:
            self.w.kept_tids.append((tid, tid_t(tid), self.ent.name))

    def transaction_indication(self, transaction_indication_params):
        p = transaction_indication_params
        self._keep(p.transaction_id)
        self._rec("transaction", tid_t(p.transaction_id), tid_t(p.originating_transaction_id))

    def eof_sent_indication(self, transaction_id):
        self._keep(transaction_id)
        self._rec("eof_sent", tid_t(transaction_id))

    def transaction_finished_indication(self, params):
        fp = params.finished_params
        self._rec(
            "finished",
            tid_t(params.transaction_id),
            (int(fp.condition_code), int(fp.delivery_code), int(fp.file_status)),
            _floc(fp.fault_location),
        )

    def metadata_recv_indication(self, params):
        msgs = None
        if params.msgs_to_user is not None:
            msgs = tuple(bytes(m.pack()) for m in params.msgs_to_user)
        self._rec(
            "metadata_recv",
            tid_t(params.transaction_id),
            (
                params.source_id.value,
                params.file_size,
                params.source_file_name,
                params.dest_file_name,
                msgs,
            ),
        )

    def file_segment_recv_indication(self, params):
        self._rec("file_segment_recv", tid_t(params.transaction_id), (params.offset, params.length))

    def report_indication(self, transaction_id, status_report):
        self._rec("report", tid_t(transaction_id))

    def suspended_indication(self, transaction_id, cond_code):
        self._rec("suspended", tid_t(transaction_id), int(cond_code))

    def resumed_indication(self, transaction_id, progress):
        self._rec("resumed", tid_t(transaction_id), progress)

    def fault_indication(self, transaction_id, cond_code, progress):
        self._rec("fault", tid_t(transaction_id), (int(cond_code), progress))

    def abandoned_indication(self, transaction_id, cond_code, progress):
        self._rec("abandoned", tid_t(transaction_id), (int(cond_code), progress))

    def eof_recv_indication(self, transaction_id):
        self._rec("eof_recv", tid_t(transaction_id))


class RecFaultHandler(DefaultFaultHandlerBase):
    def __init__(self, world, ent):
        super().__init__()
        self.w = world
        self.ent = ent

    def _rec(self, kind, tid, cond, progress):
        item = (kind, tid_t(tid), int(cond), progress)
        c = self.w.cur_call
        if c is not None:
            c.faults.append(item)
        else:
            self.w.stray.append((self.ent.name, item))

    def notice_of_suspension_cb(self, transaction_id, cond, progress):
        self._rec("suspend", transaction_id, cond, progress)

    def notice_of_cancellation_cb(self, transaction_id, cond, progress):
        self._rec("cancel", transaction_id, cond, progress)

    def abandoned_cb(self, transaction_id, cond, progress):
        self._rec("abandon", transaction_id, cond, progress)

    def ignore_cb(self, transaction_id, cond, progress):
        self._rec("ignore", transaction_id, cond, progress)


class WrapSeq(ProvidesSeqCount):
    """User-supplied sequence number provider with wrap-around (spacepackets' SeqCountProvider
    0.26.1 does not wrap; what a transaction gets is recorded for C19)."""

    def __init__(self, bit_width: int, start: int = 0):
        self._w = bit_width
        self.count = start % (1 << bit_width)
        self.issued: list[int] = []

    @property
    def max_bit_width(self) -> int:
        return self._w

    @max_bit_width.setter
    def max_bit_width(self, width: int) -> None:
        self._w = width

    def get_and_increment(self) -> int:
        v = self.count
        self.count = (self.count + 1) % (1 << self._w)
        self.issued.append(v)
        return v


class SimCheckTimers(CheckTimerProvider):
    def __init__(self, world, ent):
        self.w = world
        self.ent = ent
        self.provided = []

    def provide_check_timer(self, local_entity_id, remote_entity_id, entity_type):
        secs = self.w.cfg.check_s_send if int(entity_type) == 0 else self.w.cfg.check_s_recv
        # the interval is the user's to choose per remote entity: a second remote entity (id 3, "ghost") has its own
        # (much shorter) one where a population sets it (C11 history towards the ghost)
        per_remote = getattr(self.w, "check_s_by_remote", None)
        if per_remote and int(remote_entity_id.value) in per_remote:
            secs = per_remote[int(remote_entity_id.value)]
        self.provided.append((self.w.clock.t, int(entity_type)))
        return Countdown.from_seconds(secs)


# ---------------------------------------------------------------------------------------------
# configuration


class Cfg:
    """Every knob of a run. `draw` always consumes the same number of tape entries."""

    def __init__(self):
        pass

    @staticmethod
    def draw(t: Tape, force: dict | None = None) -> "Cfg":
        c = Cfg()
        f = force or {}

        def g(name, val):
            setattr(c, name, f[name] if name in f else val)

        g("mode", [ACK, UNACK][t.choose(2, "mode")])
        g("closure", bool(t.choose(2, "closure")))
        g("req_mode_given", not t.choose(3, "req_mode_given") == 2)
        g("req_closure_given", not t.choose(3, "req_closure_given") == 2)
        g("mib_mode_other", bool(t.choose(2, "mib_mode_other")))
        g("mib_closure_other", bool(t.choose(2, "mib_closure_other")))
        g("ck", CK_TYPES[t.weighted([4, 4, 1, 1], "ck")])
        g("crc", bool(t.choose(2, "crc")))
        g("idw_a", [1, 2, 4, 8][t.choose(4, "idw_a")])
        g("idw_b", [1, 2, 4, 8][t.choose(4, "idw_b")])
        g("seqw", [2, 1, 4][t.choose(3, "seqw")])
        g("seg", [8, 1, 2, 3, 5, 16, 64, 200, 1024, None][t.choose(10, "seg")])
        g("mpl_sel", t.choose(8, "mpl_sel"))
        g("size_sel", t.weighted([4, 2, 2, 2, 2, 2, 3, 2, 1, 1, 1], "size_sel"))
        g("dst_shape", t.weighted([4, 2, 2, 1], "dst_shape"))
        g("imm_nak", not bool(t.choose(2, "imm_nak")))
        g("ack_s", [1.0, 0.5, 2.0, 3.7][t.choose(4, "ack_s")])
        g("ack_lim", [2, 1, 3, 4][t.choose(4, "ack_lim")])
        g("nak_s", [1.0, 0.6, 2.5, 1.3][t.choose(4, "nak_s")])
        g("nak_lim", [2, 1, 3, 4][t.choose(4, "nak_lim")])
        g("check_s_send", [1.0, 0.7, 2.0][t.choose(3, "check_s_send")])
        g("check_s_recv", [1.0, 0.7, 2.0][t.choose(3, "check_s_recv")])
        g("check_lim", [2, 1, 3, 4][t.choose(4, "check_lim")])
        g("dispo", bool(t.choose(2, "dispo")))
        g("ind_a", 15 - t.weighted([6] + [1] * 15, "ind_a"))
        g("ind_b", 15 - t.weighted([6] + [1] * 15, "ind_b"))
        g("shell", ["history", "plain"][t.choose(2, "shell")])
        g("vfs", ["native", "mem"][t.weighted([3, 1], "vfs")])
        g("msgs", t.weighted([6, 1, 1, 1, 1, 1, 1, 1, 1], "msgs"))
        g("lat_ms", [5, 1, 20, 50][t.choose(4, "lat_ms")])
        g("poll_ms", [50, 10, 100, 200][t.choose(4, "poll_ms")])
        g("seq_start", [0, 1, 254, 255, 65534][t.choose(5, "seq_start")])
        g("metadata_only", t.weighted([15, 1], "metadata_only") == 1)
        g("content", t.choose(1 << 16, "content"))
        c.finish()
        return c

    def finish(self):
        # resolve the request-level / MIB-level mode and closure settings (C19 truth table):
        # the effective value is self.mode / self.closure; where the request does not carry it
        # the MIB carries the effective value, otherwise the MIB may carry the opposite.
        self.req_mode = self.mode if self.req_mode_given else None
        self.req_closure = self.closure if self.req_closure_given else None
        other_mode = UNACK if self.mode == ACK else ACK
        self.mib_mode = (other_mode if self.mib_mode_other else self.mode) if self.req_mode_given else self.mode
        self.mib_closure = (
            ((not self.closure) if self.mib_closure_other else self.closure)
            if self.req_closure_given
            else self.closure
        )
        idw = max(self.idw_a, self.idw_b)
        self.idw = idw
        self.hdr_len = 4 + 2 * idw + self.seqw
        crc = 2 if self.crc else 0
        self.min_mpl = self.hdr_len + 1 + 16 + crc + 2  # NAK with one request is the largest fixed part
        # EOF: hdr + 1 + 1 + 4 + 4 (+ crc); FD: hdr + 4 + 1 (+crc); ACK: hdr + 3 (+crc); all smaller.
        # the last two sit on the boundary where exactly k segment requests fit a NAK PDU only if every optional
        # field (PDU CRC) is accounted for: header + directive code + scope (8) + 2 x 8 (+ 0 or 1)
        self.mpl = [2048, self.min_mpl, self.min_mpl + 1, self.min_mpl + 9, self.hdr_len + 64, 512, self.hdr_len + 25, self.hdr_len + 26][
            self.mpl_sel
        ]
        if self.mpl < self.min_mpl:
            self.mpl = self.min_mpl
        derived = self.mpl - self.hdr_len - 4 - crc
        self.eff_seg = derived if self.seg is None else min(self.seg, derived)
        s = self.eff_seg
        # the last entry is the scale entry: more than 64 KiB with long segments, more than 512 segments with short ones
        sizes = [2 * s, s, 1, 0, max(s - 1, 0), s + 1, 3 * s + max(1, s // 2), 7 * s, 12 * s + 1, 10000, 70001 if s >= 128 else 520 * s + 1]
        self.size = sizes[self.size_sel]
        if self.size_sel != 10:
            if self.size > 12000:
                self.size = 12000
            if self.size // max(s, 1) > 300:
                self.size = 300 * s
        if self.metadata_only:
            self.size = 0

    def content_bytes(self) -> bytes:
        if self.size == 0:
            return b""
        out = bytearray()
        ctr = 0
        while len(out) < self.size:
            out += hashlib.sha256(f"{self.content}:{ctr}".encode()).digest()
            ctr += 1
        return bytes(out[: self.size])

    def brief(self) -> dict:
        return {
            "mode": self.mode.name[:5], "closure": self.closure, "ck": self.ck.name, "crc": self.crc,
            "idw": (self.idw_a, self.idw_b), "seqw": self.seqw, "seg": self.seg, "eff_seg": self.eff_seg,
            "mpl": self.mpl, "size": self.size, "dst_shape": self.dst_shape, "imm_nak": self.imm_nak,
            "ack": (self.ack_s, self.ack_lim), "nak": (self.nak_s, self.nak_lim),
            "check": (self.check_s_send, self.check_s_recv, self.check_lim), "dispo": self.dispo,
            "ind": (self.ind_a, self.ind_b), "shell": self.shell, "vfs": self.vfs, "msgs": self.msgs,
            "lat_ms": self.lat_ms, "poll_ms": self.poll_ms, "md_only": self.metadata_only,
            "req": (None if self.req_mode is None else self.req_mode.name[:5], self.req_closure),
            "mib": (self.mib_mode.name[:5], self.mib_closure),
        }


def ind_cfg(bits: int) -> IndicationCfg:
    # positional, in the documented field order (EOF-Sent, EOF-Recv, File-Segment-Recv, Transaction-Finished, Suspended,
    # Resumed): this is how the library's own tests build it, so the order is part of the interface
    return IndicationCfg(bool(bits & 1), bool(bits & 2), bool(bits & 4), bool(bits & 8), True, True)


# ---------------------------------------------------------------------------------------------
# entity = shell + handlers


class Entity:
    def __init__(self, world, name: str, eid: int, idw: int):
        self.w = world
        self.name = name
        self.eid = UnsignedByteField(eid, idw)
        self.handlers: dict[str, object] = {}
        self.closed: dict[str, set] = collections.defaultdict(set)
        self.live_tid: dict[str, tuple | None] = collections.defaultdict(lambda: None)
        self.stalled = False
        self.tick_inbox: list = []
        self.inbox: list[bytes] = []
        self.poll_armed = False
        self.nodrain = False
        self.drained: dict[str, bool] = {}
        self.lk = None  # LinkCfg of this entity's pair (None: the link's global settings)
        self.lk_by: dict = {}  # handler key -> LinkCfg (several transactions between the same two entities, C11)
        self.tape_by: dict = {}  # handler key -> tape
        self.peer: "Entity | None" = None  # the entity at the other end of this entity's link
        self.tape = world.tape  # tape deciding link faults / pacing of what this entity sends

    def note_state(self, hk: str, snap: Snap) -> None:
        """History kept by the user: what it can see through the public properties."""
        live = self.live_tid[hk]
        if snap.busy and snap.tid is not None:
            if live is not None and live != snap.tid:
                self.closed[hk].add(live)
            self.live_tid[hk] = snap.tid
        elif not snap.busy and live is not None:
            self.closed[hk].add(live)
            self.live_tid[hk] = None


class LinkCfg:
    """Fault settings of one entity pair."""

    def __init__(self, enabled=(), rate=(0, 1), budget=None):
        self.enabled = set(enabled)
        self.rate = rate
        self.budget = budget


class Link:
    """Two unidirectional channels with tape-decided faults (DESIGN 2.3)."""

    KINDS = ("drop", "dup", "delay", "corrupt")

    def __init__(self, world):
        self.w = world
        self.enabled: set[str] = set()
        self.rate = (0, 1)  # numerator, denominator of "some fault on this PDU"
        self.budget: int | None = None  # remaining faults; None = unbounded
        self.partition: dict[str, bool] = {"a": False, "b": False}  # sender side silenced
        self.fired = {k: 0 for k in self.KINDS}
        self.fired["partition_drop"] = 0
        self.sent = 0
        self.last_fault_t = None
        self.delays_ms = (300, 1200, 2600)
        self.pdu_count: dict[str, int] = {}
        self.hit_log: list[tuple] = []
        self.hook = None  # scripted link policy (C13): callable(src_ent, dst_ent, emitted, key)

    def send(self, src_ent: Entity, em: Emitted, hk: str | None = None) -> None:
        w = self.w
        t = src_ent.tape_by.get(hk, src_ent.tape)
        dst = src_ent.peer
        self.sent += 1
        key = f"{src_ent.name}>{dst.name} " + em.kind
        self.pdu_count[key] = self.pdu_count.get(key, 0) + 1
        if self.hook is not None:
            r = self.hook(src_ent, dst, em, key)
            if r is not None:
                # ("drop",) or ("delay", extra_ms)
                self.fired["hook_" + r[0]] = self.fired.get("hook_" + r[0], 0) + 1
                w.log.append(f"  link {key} {em.info} HOOK {r}")
                if r[0] == "delay":
                    w.push(w.clock.t + w.cfg.lat_ms + r[1], ("arr", dst, em.raw))
                elif r[0] == "dup":
                    w.push(w.clock.t + w.cfg.lat_ms, ("arr", dst, em.raw))
                    w.push(w.clock.t + w.cfg.lat_ms + 1 + r[1], ("arr", dst, em.raw))
                if r[0] != "pass":
                    self.last_fault_t = w.clock.t
                return
        if self.partition.get(src_ent.name):
            self.fired["partition_drop"] += 1
            self.last_fault_t = w.clock.t
            w.log.append(f"  link {key} {em.info} PARTITION-DROP")
            self.hit_log.append(("partition", key, em.info))
            return
        lat = w.cfg.lat_ms
        fault = None
        L = src_ent.lk_by.get(hk) or src_ent.lk or self  # fault settings: per handler / per entity pair when set (C11), else global
        if L.enabled and (L.budget is None or L.budget > 0):
            num, den = L.rate
            if t.chance(num, den, f"fault? {key}"):
                kinds = [k for k in self.KINDS if k in L.enabled]
                if "corrupt" in kinds and em.kind != "FD":
                    kinds.remove("corrupt")
                if kinds:
                    fault = kinds[t.choose(len(kinds), "fault kind")]
        if fault is None:
            w.push(w.clock.t + lat, ("arr", dst, em.raw))
            return
        if L.budget is not None:
            L.budget -= 1
        self.fired[fault] += 1
        self.last_fault_t = w.clock.t
        self.hit_log.append((fault, key, em.info, w.a.handlers["src"].step.name, w.b.handlers["dst"].step.name))
        w.log.append(f"  link {key} {em.info} FAULT {fault}")
        if fault == "drop":
            return
        if fault == "dup":
            extra = self.delays_ms[t.choose(len(self.delays_ms), "dup delay")] if t.choose(2, "dup late") else 0
            w.push(w.clock.t + lat, ("arr", dst, em.raw))
            w.push(w.clock.t + lat + 1 + extra, ("arr", dst, em.raw))
            return
        if fault == "delay":
            extra = self.delays_ms[t.choose(len(self.delays_ms), "delay")]
            w.push(w.clock.t + lat + extra, ("arr", dst, em.raw))
            return
        if fault == "corrupt":
            raw = bytearray(em.raw)
            hdr = w.cfg.hdr_len + 4
            crc = 2 if w.cfg.crc else 0
            n = len(raw) - hdr - crc
            if n <= 0:
                w.push(w.clock.t + lat, ("arr", dst, em.raw))
                return
            nflips = 1 + t.choose(3, "nflips")
            for _ in range(nflips):
                pos = hdr + t.choose(n, "flip pos")
                raw[pos] ^= 1 << t.choose(8, "flip bit")
            w.push(w.clock.t + lat, ("arr", dst, bytes(raw)))
            return


class Violation:
    __slots__ = ("clause", "locus", "detail")

    def __init__(self, clause: str, locus: str, detail: str = ""):
        self.clause = clause
        self.locus = locus
        self.detail = detail

    def fp(self) -> str:
        return f"{self.clause}|{self.locus}"


class World:
    """Two entities a (sender side, id 1) and b (receiver side, id 2), each with a real
    SourceHandler and a real DestHandler behind a shell."""

    def __init__(self, tape: Tape, cfg: Cfg, keep_log: bool = True):
        self.tape = tape
        self.cfg = cfg
        self.clock = env.new_clock()
        env.reset_process_globals()
        self.heap: list = []
        self.seq = 0
        self.nev = 0
        self.log: list[str] = []
        self.cur_call: CallRec | None = None
        self.stray: list = []
        self.calls_n = 0
        self.monitors: list = []
        self.violations: list[Violation] = []
        self.probes: dict[str, int] = {}
        self.sig: list = []
        self.states_seen: set = set()
        self.link = Link(self)
        self.sandbox = None
        self.internal_errors: list[ExcInfo] = []
        self.lib_excs: dict[str, int] = {}
        self.parse_rejects = 0
        self.fs_fault = None  # callable(op, path, ...) -> exception or None (destination side)
        self.fs_fault_x = None  # callable(entity name, op, path, ...) -> exception or None: read_data / calculate_checksum / file_size of either side
        self.max_events = 3000
        self.max_t = 600_000
        self.cap_hit = None
        self.user_hooks_b = []
        self.polls_stopped = True
        self.ind_log: list = []  # (entity, indication item, call seq)
        self.fault_log: list = []  # (entity, fault item, call seq)
        self.noop_polls = 0
        self.pending = 0  # queued non-poll events
        self.pacing = "regular"
        self.lazy_ms = 4000
        self.kept_tids: list = []
        # transaction status the history shell reports when it acknowledges a PDU of a closed transaction: TERMINATED
        # (it keeps a history), or UNDEFINED / UNRECOGNIZED (CFDP 4.7.2 for an entity that keeps none)
        self.closed_status = TransactionStatus.TERMINATED
        self.tick_ms = 1000  # pacing "ticked": period of every entity's main loop
        self.tick_phase_ms = 300  # ... and the offset of the second entity's loop
        self.wake_armed: set = set()
        self.polled = (("a", "src"), ("b", "dst"))
        self.route_hook = None  # callable(ent, pdu, "src"|"dst") -> handler key | None (C11, C19)
        self.audit = None  # object with enter(rec)/exit(rec), active around every handler API call (C16)
        self.ents: dict[str, Entity] = {}
        self._build()

    # -- construction
    def _build(self):
        c = self.cfg
        self.sandbox = enter_sandbox()
        if c.vfs == "mem":
            self.vfs_a = MemFilestore()
            self.vfs_b_inner = self.vfs_a  # one shared in-memory store, like one host fs
        else:
            self.vfs_a = (getattr(c, "native_cls", None) or NativeStoreH)()
            self.vfs_b_inner = self.vfs_a
        st = self.vfs_a
        st.h_mkdir("src")
        st.h_mkdir("dst")
        st.h_mkdir("dst/sub")
        st.h_put("dst/decoy.bin", b"decoy-content")
        st.h_put("dst/sub/decoy2.bin", b"decoy-2")
        self.src_bytes = c.content_bytes()
        self.src_path = "src/a.bin"
        if not c.metadata_only:
            st.h_put(self.src_path, self.src_bytes)
        if c.dst_shape in (1, 3):
            self.dst_req = "dst"
            self.dst_path = "dst/a.bin"
            if c.dst_shape == 3:
                # the destination directory already holds a (longer) file with the source's base name
                st.h_put(self.dst_path, b"OLDER" * (c.size // 5 + 7))
        else:
            self.dst_req = "dst/out.bin"
            self.dst_path = "dst/out.bin"
            if c.dst_shape == 2:
                st.h_put(self.dst_path, b"OLD" * (c.size // 3 + 5))
        self.vfs_b = FaultyFilestore(self.vfs_b_inner, self._fs_decide, lambda op, path, *x: self._fs_decide_x("b", op, path, *x))
        # the sending entity's store sits behind the second seam only (reads / checksums / sizes that fail)
        self.vfs_a_user = FaultyFilestore(self.vfs_a, lambda *a: None, lambda op, path, *x: self._fs_decide_x("a", op, path, *x))
        self.a = Entity(self, "a", 1, c.idw_a)
        self.b = Entity(self, "b", 2, c.idw_b)
        for ent, other, ind, vfs in ((self.a, self.b, c.ind_a, self.vfs_a_user), (self.b, self.a, c.ind_b, self.vfs_b)):
            self._equip(ent, other, ind, vfs)
        self.b.user.hooks = self.user_hooks_b
        self.a.peer = self.b
        self.b.peer = self.a
        self.ents = {"a": self.a, "b": self.b}

    def _equip(self, ent, other, ind, vfs, seq_provider=None) -> None:
        """User, fault handler, MIB and one source + one destination handler for an entity."""
        c = self.cfg
        ent.user = RecUser(self, ent, vfs)
        ent.fh = RecFaultHandler(self, ent)
        ent.timers = SimCheckTimers(self, ent)
        ent.lcfg = LocalEntityCfg(ent.eid, ind_cfg(ind), ent.fh)
        ent.rcfg = RemoteEntityCfg(
            entity_id=other.eid,
            max_file_segment_len=c.seg,
            max_packet_len=c.mpl,
            closure_requested=c.mib_closure,
            crc_on_transmission=c.crc,
            default_transmission_mode=c.mib_mode,
            crc_type=c.ck,
            positive_ack_timer_interval_seconds=c.ack_s,
            positive_ack_timer_expiration_limit=c.ack_lim,
            check_limit=c.check_lim,
            disposition_on_cancellation=c.dispo,
            immediate_nak_mode=c.imm_nak,
            nak_timer_interval_seconds=c.nak_s,
            nak_timer_expiration_limit=c.nak_lim,
        )
        ent.table = RemoteEntityCfgTable([ent.rcfg])
        ent.seqp = seq_provider or WrapSeq(c.seqw * 8, c.seq_start if c.seq_start < (1 << (c.seqw * 8)) else 0)
        ent.handlers["src"] = SourceHandler(ent.lcfg, ent.user, ent.table, ent.timers, ent.seqp)
        ent.handlers["dst"] = DestHandler(ent.lcfg, ent.user, ent.table, ent.timers)

    def add_pair(self, name_x: str, name_y: str, eid_x: int, eid_y: int, tape=None):
        """A second, independent pair of entities (sibling handler instances in the same process,
        C11): own ids, own users, own link direction pair, same clock, same scheduler."""
        c = self.cfg
        x = Entity(self, name_x, eid_x, c.idw_a)
        y = Entity(self, name_y, eid_y, c.idw_b)
        if tape is not None:
            x.tape = tape
            y.tape = tape
        self._equip(x, y, c.ind_a, self.vfs_a)
        self._equip(y, x, c.ind_b, self.vfs_a)
        x.peer, y.peer = y, x
        self.ents[name_x] = x
        self.ents[name_y] = y
        self.link.partition[name_x] = False
        self.link.partition[name_y] = False
        return x, y

    def _fs_decide_x(self, who, op, path, *extra):
        if self.fs_fault_x is None:
            return None
        e = self.fs_fault_x(who, op, path, *extra)
        if e is not None and self.cur_call is not None:
            self.cur_call.vfs_rejects += 1
        return e

    def _fs_decide(self, op, path, *extra):
        if self.fs_fault is None:
            return None
        e = self.fs_fault(op, path, *extra)
        if e is not None and self.cur_call is not None:
            self.cur_call.vfs_rejects += 1
        return e

    def close(self):
        if self.sandbox:
            leave_sandbox(self.sandbox)
            self.sandbox = None
        env.CLOCK.cur = None

    # -- helpers
    def put_request_obj(self, msgs=None, opts: int = 0) -> PutRequest:
        """opts: further Metadata options carried by the request (0 none, 1 filestore request,
        2 flow label, 3 filestore request + flow label + fault handler override)."""
        c = self.cfg
        kw = {}
        if opts:
            from spacepackets.cfdp.tlv import FaultHandlerOverrideTlv, FileStoreRequestTlv, FlowLabelTlv
            from spacepackets.cfdp.defs import FaultHandlerCode
            from spacepackets.cfdp.tlv import FilestoreActionCode

            if opts in (1, 3):
                kw["fs_requests"] = [FileStoreRequestTlv(FilestoreActionCode.CREATE_FILE_SNM, "dst/req.bin")]
            if opts in (2, 3):
                kw["flow_label_tlv"] = FlowLabelTlv(b"\x07")
            if opts == 3:
                kw["fault_handler_overrides"] = [
                    FaultHandlerOverrideTlv(ConditionCode.FILE_SIZE_ERROR, FaultHandlerCode.IGNORE_ERROR)
                ]
        if c.metadata_only:
            return PutRequest(
                destination_id=self.b.eid, source_file=None, dest_file=None, trans_mode=c.req_mode,
                closure_requested=c.req_closure, msgs_to_user=msgs, **kw,
            )
        return PutRequest(
            destination_id=self.b.eid,
            source_file=Path(self.src_path),
            dest_file=Path(self.dst_req),
            trans_mode=c.req_mode,
            closure_requested=c.req_closure,
            msgs_to_user=msgs,
            **kw,
        )

    def dst_bytes(self):
        return self.vfs_b_inner.h_get(self.dst_path)

    def probe(self, name: str, n: int = 1) -> None:
        self.probes[name] = self.probes.get(name, 0) + n

    def violate(self, clause: str, locus: str, detail: str = "") -> None:
        self.violations.append(Violation(clause, locus, detail))
        self.log.append(f"  !! VIOLATION {clause} | {locus} | {detail}")

    def push(self, t: int, ev: tuple) -> None:
        self.seq += 1
        if ev[0] not in ("poll", "tick"):
            self.pending += 1
        heapq.heappush(self.heap, (t, self.seq, ev))

    # -- the only way handler code is ever entered
    def call(self, ent: Entity, hk: str, op: str, pdu=None, raw=None, arg=None, tags=()) -> CallRec:
        h = ent.handlers[hk]
        clock = self.clock
        clock.cur = ent.name
        rec = CallRec()
        self.calls_n += 1
        rec.seq = self.calls_n
        rec.t = clock.t
        rec.ent = ent.name
        rec.hk = hk
        rec.op = op
        rec.arg = arg
        rec.tags = tags
        if pdu is not None:
            rec.inb = pdu
            rec.inb_kind = pdu_kind(pdu)
            rec.inb_info = pdu_info(pdu)
            rec.inb_raw = raw
        rec.pre = Snap(h)
        was_drained = ent.drained.get(hk, True) and h.num_packets_ready == 0  # nothing left over from earlier calls
        # the shell's own knowledge of un-drained PDUs: it always drains completely unless it is
        # in no-drain mode, where the public counter of the previous call tells it what it left
        # (in no-drain mode it cannot know that the queue is empty, so the clause is not judged)
        rec.qlen_entry = 0 if ent.drained.get(hk, True) else max(rec.pre.nready, 1)
        self.cur_call = rec
        aud = self.audit
        try:
            if aud is not None:
                aud.enter(rec)
            try:
                if op == "sm":
                    h.state_machine(pdu)
                elif op == "put":
                    rec.ret = h.put_request(arg)
                elif op == "cancel":
                    rec.ret = h.cancel_request(arg)
                elif op == "fetch":
                    pass  # the user only fetches the PDUs that are ready (the drain below), no request, no state machine call
                else:
                    raise RuntimeError(op)
            finally:
                if aud is not None:
                    aud.exit(rec)
        except Exception as e:  # noqa: BLE001
            rec.exc = ExcInfo(e)
            if rec.exc.is_lib:
                self.lib_excs[rec.exc.cls] = self.lib_excs.get(rec.exc.cls, 0) + 1
            else:
                self.internal_errors.append(rec.exc)
        ent.drained[hk] = not ent.nodrain
        n_announced = h.num_packets_ready if (not ent.nodrain and was_drained) else None
        n_fetched = 0
        if not ent.nodrain:
            for _ in range(10000):
                try:
                    if aud is not None:
                        aud.enter(rec)
                    try:
                        holder = h.get_next_packet()
                    finally:
                        if aud is not None:
                            aud.exit(rec)
                except Exception as e:  # noqa: BLE001
                    rec.exc = rec.exc or ExcInfo(e)
                    break
                if holder is None:
                    break
                n_fetched += 1
                try:
                    raw_out = bytes(holder.pack())
                    obj_len = holder.packet_len
                except Exception as e:  # noqa: BLE001
                    ei = ExcInfo(e)
                    ei.func = "pack:" + ei.func
                    self.internal_errors.append(ei)
                    rec.tags = rec.tags + ("PACKFAIL:" + ei.cls,)
                    continue
                rec.emitted.append(Emitted(raw_out, parse_pdu(raw_out), obj_len))
        rec.post = Snap(h)
        # harness invariant of every check: the public packet counter tells the truth - what it announced after the call is
        # what could be fetched (queue empty before the call), and it reads 0 once everything is fetched
        for obj, was, who in self.kept_tids:
            if tid_t(obj) != was:
                self.violate("indication_object_mutated", f"{who}: the TransactionId object handed to the user as {was} now reads {tid_t(obj)}", "")
                self.kept_tids = [x for x in self.kept_tids if x[0] is not obj]
                break
        if n_announced is not None and (rec.exc is None or rec.exc.is_lib) and (n_announced != n_fetched or h.num_packets_ready != 0):
            self.violate("packets_ready_counter", f"{ent.name}.{hk} op={op} in={rec.inb_kind} step={rec.pre.step}: announced={n_announced} "
                         f"fetched={n_fetched} after fetching all: num_packets_ready={h.num_packets_ready}", "")
        self.cur_call = None
        clock.cur = None
        ent.note_state(hk, rec.post)
        for i in rec.inds:
            self.ind_log.append((ent.name, i, rec.seq))
            if rec.post.state == "IDLE" and len(i) > 1 and isinstance(i[1], tuple) and i[0] != "transaction":
                # a transaction that started and ended inside one call (metadata-only) is visible to the user only
                # through its indications: the user's history records it as closed
                ent.closed[hk].add(i[1])
        for f in rec.faults:
            self.fault_log.append((ent.name, f, rec.seq))
            if f[0] == "abandon" and f[1] is not None and rec.post.state == "IDLE":
                # the user learns of an abandonment through the fault callback and records it
                ent.closed[hk].add(f[1])
        if op == "sm" and pdu is None and not rec.emitted and not rec.inds and not rec.faults and rec.exc is None \
                and rec.pre.key() == rec.post.key():
            self.noop_polls += 1
        else:
            self.log.append(rec.render())
        self.sig.append((ent.name, hk, op, rec.inb_kind, tuple(e.kind for e in rec.emitted), rec.exc.cls if rec.exc else None))
        self.states_seen.add(
            (self.a.handlers["src"].step.value, self.b.handlers["dst"].step.value, rec.post.extra)
        )
        for m in self.monitors:
            m.on_call(self, rec)
        for e in rec.emitted:
            self.link.send(ent, e, hk)
        return rec

    # -- shell: arrival of bytes at an entity
    def deliver(self, ent: Entity, raw: bytes, misroute: bool = False) -> CallRec | None:
        pdu = parse_pdu(raw)
        if pdu is None:
            self.parse_rejects += 1
            self.log.append(f"  {ent.name} parse-reject {raw[:8].hex()}")
            return None
        try:
            dest = get_packet_destination(pdu)
        except ValueError:
            self.log.append(f"  {ent.name} route-reject {pdu_info(pdu)}")
            self.probe("route_reject")
            for m in self.monitors:
                f = getattr(m, "on_route_error", None)
                if f:
                    f(self, ent, pdu)
            return None
        hk = "src" if dest == PacketDestination.SOURCE_HANDLER else "dst"
        for m in self.monitors:
            f = getattr(m, "on_route", None)
            if f:
                f(self, ent, pdu, hk)
        if misroute:
            hk = "dst" if hk == "src" else "src"
            return self.call(ent, hk, "sm", pdu, raw, tags=("MISROUTE",))
        if self.route_hook is not None:
            # several handlers of the same kind at one entity: the user dispatches by transaction id
            hk = self.route_hook(ent, pdu, hk)
            if hk is None:
                self.probe("route_hook_dropped")
                return None
        tid = tid_of(pdu)
        kind = pdu_kind(pdu)
        h = ent.handlers[hk]
        if self.cfg.shell == "history":
            if tid in ent.closed[hk]:
                self.probe("history_answer_" + kind)
                self.log.append(f"  {ent.name}.{hk} history: {pdu_info(pdu)} for closed {tid}")
                if kind == "EOF":
                    ack = acknowledge_inactive_eof_pdu(pdu, self.closed_status)
                    for m in self.monitors:
                        f = getattr(m, "on_inactive_ack", None)
                        if f:
                            f(self, pdu, ack)
                    rawo = bytes(ack.pack())
                    self.link.send(ent, Emitted(rawo, parse_pdu(rawo), ack.packet_len), hk)
                elif kind == "FIN" and pdu.transmission_mode == ACK:
                    conf = copy.copy(pdu.pdu_header.pdu_conf)
                    conf.direction = Direction.TOWARDS_RECEIVER
                    ack = AckPdu(conf, DirectiveType.FINISHED_PDU, pdu.condition_code, self.closed_status)
                    rawo = bytes(ack.pack())
                    self.link.send(ent, Emitted(rawo, parse_pdu(rawo), ack.packet_len), hk)
                return None
            live = ent.live_tid[hk]
            if live is not None and live != tid and h.state != CfdpState.IDLE:
                # handler busy with another transaction: a single-handler entity cannot serve it
                self.probe("foreign_tid_dropped")
                self.log.append(f"  {ent.name}.{hk} drop foreign {tid} {pdu_info(pdu)}")
                return None
        rec = self.call(ent, hk, "sm", pdu, raw)
        if self.pacing in ("event", "lazy"):
            self.arm_wake(ent, hk)
        return rec

    def poll(self, ent: Entity, hk: str, tags=()) -> CallRec:
        return self.call(ent, hk, "sm", None, tags=tags)

    # -- scheduler
    def step(self) -> bool:
        """Pop and execute one event. Returns False when nothing is left or a cap was hit."""
        if not self.heap:
            return False
        if self.nev >= self.max_events:
            self.cap_hit = "events"
            return False
        t, _, ev = heapq.heappop(self.heap)
        if t > self.max_t:
            self.cap_hit = "time"
            return False
        if t > self.clock.t:
            self.clock.now_ms = self.clock.EPOCH + t
        self.nev += 1
        kind = ev[0]
        if kind not in ("poll", "tick"):
            self.pending -= 1
        if kind == "arr":
            ent, raw = ev[1], ev[2]
            if ent.stalled:
                ent.inbox.append(raw)
            elif self.pacing == "ticked" and not self.polls_stopped:
                # the user's main loop looks at what has arrived only once per tick
                ent.tick_inbox.append(raw)
                self.pending += 1
            else:
                self.deliver(ent, raw)
        elif kind == "tick":
            # main loop of an entity: `for pdu in arrived: state_machine(pdu)`, else `state_machine()`; repeated at once
            # while the handlers have something to do, then sleep one period
            ent = ev[1]
            if self.polls_stopped:
                return True
            busy = False
            if not ent.stalled:
                msgs, ent.tick_inbox = ent.tick_inbox, []
                self.pending -= len(msgs)
                served = set()
                for raw in msgs:
                    r = self.deliver(ent, raw)
                    busy = True
                    if r is not None:
                        served.add(r.hk)
                for en, hk in self.polled:
                    if en == ent.name and hk not in served:
                        r = self.poll(ent, hk)
                        busy = busy or bool(r.emitted) or r.pre.step != r.post.step
            if busy:
                nxt = self.clock.t + 1
            else:
                # ticks lie on a fixed grid (entity i at n * period + phase_i), so that the two loops do not drift
                ph = ev[2]
                nxt = ((self.clock.t - ph) // self.tick_ms + 1) * self.tick_ms + ph
            self.push(nxt, ("tick", ent, ev[2]))
        elif kind == "poll":
            ent, hk = ev[1], ev[2]
            busy = False
            if not ent.stalled:
                r = self.poll(ent, hk)
                busy = bool(r.emitted) or r.pre.step != r.post.step
            self.arm_poll(ent, hk, busy)
        elif kind == "wake":
            # event-driven caller (pacing "event" / "lazy"): after a PDU was handed over, the state machine is called
            # until it has nothing more to do, then not again before the next PDU (or the slow poll loop of "lazy")
            ent, hk = ev[1], ev[2]
            self.wake_armed.discard((ent.name, hk))
            if not ent.stalled and not self.polls_stopped:
                r = self.poll(ent, hk, tags=("WAKE",))
                if bool(r.emitted) or r.pre.step != r.post.step:
                    self.arm_wake(ent, hk)
        elif kind == "fn":
            ev[1](self)
        return True

    def arm_poll(self, ent: Entity, hk: str, busy: bool = False) -> None:
        """Re-arm the poll loop of one handler: the `while True: state_machine(); sleep()` loop of
        examples/cfdp-simple. busy -> call again at once, idle -> sleep one poll period."""
        if self.polls_stopped:
            return
        p = self.cfg.poll_ms
        if self.pacing == "regular":
            d = 1 if busy else p
        elif self.pacing in ("event", "lazy"):
            if busy:
                d = 1
            elif self.pacing == "lazy":
                d = self.lazy_ms
            else:
                return  # nothing to do: the next call comes with the next PDU
        else:
            d = (1, 7, p, 4 * p)[ent.tape_by.get(hk, ent.tape).choose(4, f"pace {ent.name}.{hk}")]
        self.push(self.clock.t + d, ("poll", ent, hk))

    def arm_wake(self, ent: Entity, hk: str) -> None:
        if (ent.name, hk) in self.wake_armed or self.polls_stopped:
            return
        self.wake_armed.add((ent.name, hk))
        self.push(self.clock.t + 1, ("wake", ent, hk))

    def start_polls(self) -> None:
        self.polls_stopped = False
        if self.pacing == "ticked":
            ents = []
            for en, _hk in self.polled:
                if en not in ents:
                    ents.append(en)
            for i, en in enumerate(ents):
                ph = (self.clock.t + 1 + (self.tick_phase_ms if i else 0)) % self.tick_ms
                self.push(self.clock.t + 1 + (self.tick_phase_ms if i else 0), ("tick", self.ents[en], ph))
            return
        for en, hk in self.polled:
            self.arm_poll(self.ents[en], hk, True)

    def all_idle(self) -> bool:
        for ent in self.ents.values():
            for h in ent.handlers.values():
                if h.state != CfdpState.IDLE:
                    return False
        return True

    def run(self, until=None, quiet_polls: int = 4) -> str:
        """Run until quiescent (everything idle, nothing in flight, for `quiet_polls` polls),
        until `until(world)` is true, or until a cap is hit. Returns the reason."""
        quiet = 0
        while True:
            if until is not None and until(self):
                return "until"
            if not self.step():
                if not self.cap_hit and self.pacing == "event" and self.all_idle():
                    return "quiet"  # an event-driven caller has no poll loop that could go on
                return self.cap_hit or "empty"
            if self.pending == 0 and self.all_idle():
                quiet += 1
                if quiet >= quiet_polls:
                    return "quiet"
            else:
                quiet = 0

    def digest(self) -> str:
        return hashlib.sha256("\n".join(self.log).encode()).hexdigest()[:16]

    def signature(self) -> int:
        out = []
        last = None
        for s in self.sig:
            if s != last:
                out.append(s)
            last = s
        return hash_sig(out)


def hash_sig(obj) -> int:
    return int.from_bytes(hashlib.blake2b(repr(obj).encode(), digest_size=8).digest(), "big")
