"""Process set-up: source root, clock seam, logging off, process-global state scan/reset."""
from __future__ import annotations

import logging
import os
import sys

SRC = os.path.realpath(os.environ.get("CFDPPY_SRC", "/repo/src"))
if SRC in sys.path:
    sys.path.remove(SRC)
sys.path.insert(0, SRC)
for _m in [m for m in sys.modules if m == "cfdppy" or m.startswith("cfdppy.")]:
    del sys.modules[_m]

logging.disable(logging.CRITICAL)

import spacepackets.countdown as _cd  # noqa: E402


class SimClock:
    """Integer millisecond clock. `read()` is what every Countdown in the process sees."""

    __slots__ = ("now_ms", "offsets", "cur")
    EPOCH = 1_700_000_000_000

    def __init__(self) -> None:
        self.now_ms = self.EPOCH
        self.offsets: dict[str, int] = {}
        self.cur: str | None = None

    def read(self) -> int:
        if self.offsets:
            return self.now_ms + self.offsets.get(self.cur, 0)
        return self.now_ms

    @property
    def t(self) -> int:
        """Simulated milliseconds since start of run."""
        return self.now_ms - self.EPOCH


CLOCK = SimClock()


def _time_ms() -> int:
    return CLOCK.read()


_cd.time_ms = _time_ms


def new_clock() -> SimClock:
    global CLOCK
    CLOCK = SimClock()
    return CLOCK


import cfdppy  # noqa: E402

_real = os.path.realpath(cfdppy.__file__)
if not _real.startswith(SRC + os.sep):
    raise RuntimeError(f"cfdppy imported from {_real}, expected under {SRC}")

import dataclasses  # noqa: E402
import types  # noqa: E402


def scan_process_globals() -> list[str]:  # dataclass defaults; containers are listed by _SNAP
    """Find mutable objects that are shared process-wide by the modules under test:
    dataclass field defaults that are instances of cfdppy classes / containers."""
    found = []
    for name, mod in sorted(sys.modules.items()):
        if not (name == "cfdppy" or name.startswith("cfdppy.")) or mod is None:
            continue
        for attr, obj in sorted(vars(mod).items()):
            if isinstance(obj, type) and dataclasses.is_dataclass(obj) and obj.__module__ == name:
                for f in dataclasses.fields(obj):
                    d = f.default
                    if d is dataclasses.MISSING or d is None:
                        continue
                    if isinstance(d, (list, dict, set, bytearray)) or (
                        type(d).__module__.startswith("cfdppy")
                        and not isinstance(d, (types.FunctionType, type))
                        and not _is_enum(d)
                    ):
                        found.append(f"{name}.{attr}.{f.name}")
    return found


def _is_enum(o) -> bool:
    import enum

    return isinstance(o, enum.Enum)


# Import-time snapshot of every module-level and class-level mutable container of the modules under test. A change
# to cfdp-py that introduces process-wide state (a module-level table that is extended in place, a class attribute
# list shared by all instances, a default table assigned without copying) must not make run n depend on runs
# 1..n-1 of the same worker: every run starts from the import-time state, exactly like a freshly started process.
# Within a run nothing is restored, so sharing between the transactions and handler objects of one run stays visible.
_SNAP: list = []


def _snapshot_process_globals() -> None:
    import copy

    seen = set()
    for name, mod in sorted(sys.modules.items()):
        if not (name == "cfdppy" or name.startswith("cfdppy.")) or mod is None:
            continue
        holders = [(name, mod)]
        for attr, obj in sorted(vars(mod).items()):
            if isinstance(obj, type) and getattr(obj, "__module__", None) == name and not _is_enum_cls(obj):
                holders.append((f"{name}.{attr}", obj))
        for hname, holder in holders:
            for attr, obj in sorted(vars(holder).items()):
                if attr.startswith("__") or id(obj) in seen:
                    continue
                if isinstance(obj, (list, dict, set, bytearray)):
                    seen.add(id(obj))
                    try:
                        _SNAP.append((f"{hname}.{attr}", obj, copy.deepcopy(obj)))
                    except Exception:  # noqa: BLE001
                        pass


def _is_enum_cls(o) -> bool:
    import enum

    return isinstance(o, type) and issubclass(o, enum.Enum)


def _restore_process_globals() -> None:
    import copy

    for _name, obj, snap in _SNAP:
        try:
            if obj == snap:
                continue
            if isinstance(obj, (list, bytearray)):
                obj[:] = copy.deepcopy(snap)
            elif isinstance(obj, dict):
                obj.clear()
                obj.update(copy.deepcopy(snap))
            elif isinstance(obj, set):
                obj.clear()
                obj.update(snap)
        except Exception:  # noqa: BLE001
            pass


def reset_process_globals() -> None:
    """A run models a freshly started process (DESIGN 2.9)."""
    import cfdppy.handler.dest as d

    _restore_process_globals()

    for f in dataclasses.fields(d._AckedModeParams):
        if f.name == "lost_seg_tracker" and f.default is not dataclasses.MISSING:
            try:
                f.default.reset()
            except Exception:  # pragma: no cover
                pass
    cls_default = d._AckedModeParams.__dict__.get("lost_seg_tracker")
    if cls_default is not None and hasattr(cls_default, "reset"):
        cls_default.reset()


import cfdppy.handler.source  # noqa: E402,F401
import cfdppy.handler.dest  # noqa: E402,F401
import cfdppy.handler.common  # noqa: E402,F401
import cfdppy.filestore  # noqa: E402,F401
import cfdppy.mib  # noqa: E402,F401
import cfdppy.request  # noqa: E402,F401
import cfdppy.user  # noqa: E402,F401
import cfdppy.crc  # noqa: E402,F401

_snapshot_process_globals()
