"""Decision tape: one list of integers decides everything (DESIGN 2.1).

search mode : values drawn from random.Random(run_seed), recorded.
replay mode : values read from a list; past its end every choice is 0 (= benign).
Any list of non-negative integers is a valid tape (values are reduced modulo n).
"""
from __future__ import annotations

import hashlib
import random


def run_seed(verif_seed: int, prop: str, index: int) -> int:
    h = hashlib.sha256(f"{verif_seed}/{prop}/{index}".encode()).digest()
    return int.from_bytes(h[:8], "big")


class Tape:
    __slots__ = ("values", "rng", "rec", "labels", "pos", "keep_labels")

    def __init__(self, values=None, seed: int | None = None, keep_labels: bool = False):
        self.values = list(values) if values is not None else None
        self.rng = random.Random(seed) if values is None else None
        self.rec: list[int] = []
        self.labels: list[str] = []
        self.pos = 0
        self.keep_labels = keep_labels

    @property
    def replaying(self) -> bool:
        return self.values is not None

    def choose(self, n: int, label: str = "") -> int:
        """Uniform choice in range(n); 0 is the benign option."""
        if n <= 0:
            n = 1
        if self.values is not None:
            raw = self.values[self.pos] if self.pos < len(self.values) else 0
            v = raw % n
        else:
            v = self.rng.randrange(n)
        self.pos += 1
        self.rec.append(v)
        if self.keep_labels:
            self.labels.append(f"{label}={v}/{n}")
        return v

    def weighted(self, weights, label: str = "") -> int:
        """Index drawn with the given integer weights (search) / read directly (replay)."""
        n = len(weights)
        if self.values is not None:
            raw = self.values[self.pos] if self.pos < len(self.values) else 0
            v = raw % n
            if weights[v] == 0:
                v = 0
        else:
            tot = sum(weights)
            r = self.rng.randrange(tot)
            v = 0
            for i, w in enumerate(weights):
                if r < w:
                    v = i
                    break
                r -= w
        self.pos += 1
        self.rec.append(v)
        if self.keep_labels:
            self.labels.append(f"{label}={v}/w{n}")
        return v

    def chance(self, num: int, den: int, label: str = "") -> bool:
        """True with probability num/den; False (0) is benign."""
        if num <= 0:
            # still consume one entry so that tape positions do not depend on rates
            self.weighted([1, 0], label)
            return False
        return self.weighted([den - num, num], label) == 1

    def pick(self, seq, label: str = ""):
        return seq[self.choose(len(seq), label)]

    def data(self, n: int, label: str = "data") -> bytes:
        """File content: one tape entry (a content seed), expanded deterministically.
        Content seed 0 gives a fixed, non-periodic pattern."""
        s = self.choose(1 << 16, label)
        if n == 0:
            return b""
        out = bytearray()
        ctr = 0
        while len(out) < n:
            out += hashlib.sha256(f"{s}:{ctr}".encode()).digest()
            ctr += 1
        return bytes(out[:n])
