"""Seeded search over tapes, minimisation, replay, evidence, verdicts (DESIGN 4)."""
from __future__ import annotations

import faulthandler
import fnmatch
import importlib
import json
import multiprocessing as mp
import os
import subprocess
import sys
import time
import traceback
from concurrent.futures import ProcessPoolExecutor, wait, FIRST_COMPLETED

from . import env
from .stores import cleanup_sandbox_root
from .tape import Tape, run_seed

VERIF = os.path.dirname(os.path.dirname(os.path.abspath(__file__)))
KNOWN_PATH = os.path.join(VERIF, "known_findings.json")
OUT = os.environ.get("VERIF_OUT") or VERIF  # scratch runs (mutants) write evidence/replays elsewhere


class RunResult:
    """What one simulated run reports back."""

    __slots__ = (
        "violations", "nontrivial", "sig", "nstates", "probes", "faults", "sim_ms", "events", "calls",
        "digest", "log", "cfg", "pop", "excused", "tape",
    )

    def __init__(self):
        self.violations = []
        self.nontrivial = False
        self.sig = 0
        self.nstates = 0
        self.probes = {}
        self.faults = {}
        self.sim_ms = 0
        self.events = 0
        self.calls = 0
        self.digest = ""
        self.log = []
        self.cfg = {}
        self.pop = ""
        self.excused = {}
        self.tape = []


def from_world(w, pop: str, nontrivial: bool, extra_faults: dict | None = None) -> RunResult:
    r = RunResult()
    r.violations = list(w.violations)
    r.nontrivial = nontrivial
    r.sig = w.signature()
    r.nstates = len(w.states_seen)
    r.probes = dict(w.probes)
    r.faults = {k: v for k, v in w.link.fired.items() if v}
    if w.parse_rejects:
        r.faults["parse_reject"] = w.parse_rejects
    if extra_faults:
        for k, v in extra_faults.items():
            if v:
                r.faults[k] = r.faults.get(k, 0) + v
    r.sim_ms = w.clock.t
    r.events = w.nev
    r.calls = w.calls_n
    r.digest = w.digest()
    r.log = w.log
    r.cfg = w.cfg.brief()
    r.pop = pop
    r.tape = list(w.tape.rec)
    return r


def load_prop(pid: str):
    return importlib.import_module(f"props.{pid}")


# ---------------------------------------------------------------------------------------------
# known findings


def load_known() -> dict:
    try:
        with open(KNOWN_PATH) as f:
            return json.load(f)
    except FileNotFoundError:
        return {"known": [], "fixed": []}


def match_known(known: dict, pid: str, v) -> str | None:
    for k in known.get("known", []):
        if k["property"] != pid:
            continue
        if not fnmatch.fnmatchcase(v.clause, k["clause"]):
            continue
        if fnmatch.fnmatchcase(v.locus, k["locus"]):
            return k["id"]
    return None


# ---------------------------------------------------------------------------------------------
# single runs


def exec_tape(prop, values=None, seed=None, keep_labels=False) -> RunResult:
    t = Tape(values=values, seed=seed, keep_labels=keep_labels)
    res = prop.run_one(t)
    res.tape = list(t.rec)
    if keep_labels:
        res.excused["labels"] = list(t.labels)
    return res


def minimise(prop, values: list[int], fp: str, budget: int = 400) -> list[int]:
    """Shrink the tape while the same oracle clause + locus still fails."""
    runs = 0

    def fails(cand) -> bool:
        nonlocal runs
        runs += 1
        try:
            r = exec_tape(prop, values=cand)
        except Exception:  # noqa: BLE001
            return False
        return any(v.fp() == fp for v in r.violations)

    best = list(values)
    # strip trailing zeros are meaningless: past the end every choice is 0
    while best and best[-1] == 0:
        best.pop()
    # 1. truncate (binary search on length)
    lo, hi = 0, len(best)
    while lo < hi and runs < budget:
        mid = (lo + hi) // 2
        if fails(best[:mid]):
            hi = mid
        else:
            lo = mid + 1
    if hi < len(best) and fails(best[:hi]):
        best = best[:hi]
    # 2. zero blocks (ddmin style)
    n = max(len(best) // 2, 1)
    while n >= 1 and runs < budget:
        i = 0
        changed = False
        while i < len(best) and runs < budget:
            if any(best[i : i + n]):
                cand = best[:i] + [0] * min(n, len(best) - i) + best[i + n :]
                if fails(cand):
                    best = cand
                    changed = True
            i += n
        if n == 1 and not changed:
            break
        n = n // 2 if n > 1 else (1 if changed else 0)
    # 3. lower individual values
    for i in range(len(best)):
        if runs >= budget:
            break
        v = best[i]
        if v > 1:
            for c in (1, v // 2):
                if c < v:
                    cand = best[:i] + [c] + best[i + 1 :]
                    if fails(cand):
                        best = cand
                        break
    while best and best[-1] == 0:
        best.pop()
    return best


# ---------------------------------------------------------------------------------------------
# worker


def _batch(pid: str, seed: int, start: int, count: int, deadline: float, known: dict, det_every: int):
    faulthandler.dump_traceback_later(600, exit=True)
    prop = load_prop(pid)
    agg = {
        "runs": 0, "nontrivial": 0, "sigs": set(), "nt_sigs": set(), "nstates": 0, "probes": {}, "faults": {},
        "sim_ms": 0, "events": 0, "calls": 0, "pops": {}, "known": {}, "viol": [], "excused": {},
        "samples": [], "det_checked": 0, "errors": [],
    }
    for idx in range(start, start + count):
        if time.time() > deadline:
            break
        rs = run_seed(seed, pid, idx)
        try:
            r = exec_tape(prop, seed=rs)
        except Exception:  # noqa: BLE001
            agg["errors"].append(f"idx={idx}: " + traceback.format_exc()[-1500:])
            if len(agg["errors"]) > 3:
                break
            continue
        agg["runs"] += 1
        if det_every and idx % det_every == 0:
            r2 = exec_tape(prop, values=r.tape)
            agg["det_checked"] += 1
            if r2.digest != r.digest or r2.tape != r.tape:
                agg["errors"].append(f"idx={idx}: nondeterministic replay {r.digest} vs {r2.digest}")
        agg["sigs"].add(r.sig)
        if r.nontrivial:
            agg["nontrivial"] += 1
            agg["nt_sigs"].add(r.sig)
        agg["nstates"] = max(agg["nstates"], r.nstates)
        for k, v in r.probes.items():
            agg["probes"][k] = agg["probes"].get(k, 0) + v
        for k, v in r.faults.items():
            agg["faults"][k] = agg["faults"].get(k, 0) + v
        for k, v in r.excused.items():
            if isinstance(v, int):
                agg["excused"][k] = agg["excused"].get(k, 0) + v
        agg["sim_ms"] += r.sim_ms
        agg["events"] += r.events
        agg["calls"] += r.calls
        agg["pops"][r.pop] = agg["pops"].get(r.pop, 0) + 1
        if len(agg["samples"]) < 2 and r.nontrivial:
            agg["samples"].append({"index": idx, "pop": r.pop, "cfg": r.cfg, "trace": r.log[:60]})
        if r.violations:
            unknown = []
            for v in r.violations:
                kid = match_known(known, pid, v)
                if kid is not None:
                    agg["known"][kid] = agg["known"].get(kid, 0) + 1
                else:
                    unknown.append(v)
            if unknown:
                seen = {x["fp"] for x in agg["viol"]}
                v = unknown[0]
                if v.fp() not in seen and len(agg["viol"]) < 3:
                    tape_min = minimise(prop, r.tape, v.fp())
                    agg["viol"].append(
                        {"fp": v.fp(), "clause": v.clause, "locus": v.locus, "detail": v.detail, "index": idx,
                         "tape": tape_min, "orig_len": len(r.tape)}
                    )
                else:
                    agg.setdefault("more_viol", 0)
                    agg["more_viol"] += 1
    faulthandler.cancel_dump_traceback_later()
    cleanup_sandbox_root()
    agg["sigs"] = list(agg["sigs"])
    agg["nt_sigs"] = list(agg["nt_sigs"])
    return agg


# ---------------------------------------------------------------------------------------------
# replay


def write_replay(pid: str, seed: int, item: dict) -> str:
    prop = load_prop(pid)
    if item.get("sweep_params") is not None:
        r = prop.run_sweep(item["sweep_params"])
    else:
        r = exec_tape(prop, values=item["tape"], keep_labels=True)
    os.makedirs(os.path.join(OUT, "replays"), exist_ok=True)
    n = 0
    while True:
        path = os.path.join(OUT, "replays", f"{pid}-{seed}-{n}.json")
        if not os.path.exists(path):
            break
        n += 1
    doc = {
        "property": pid, "seed": seed, "index": item.get("index"), "clause": item["clause"],
        "locus": item["locus"], "detail": item["detail"], "tape": item["tape"],
        "tape_labels": r.excused.get("labels", []), "cfg": r.cfg, "pop": r.pop, "digest": r.digest,
        "violations": [[v.clause, v.locus, v.detail] for v in r.violations], "trace": r.log,
        "sweep_params": item.get("sweep_params"),
    }
    with open(path, "w") as f:
        json.dump(doc, f, indent=1, default=str)
    return path


def replay_file(path: str, verbose: bool = True) -> int:
    with open(path) as f:
        doc = json.load(f)
    pid = doc["property"]
    prop = load_prop(pid)
    if doc.get("sweep_params") is not None:
        r = prop.run_sweep(doc["sweep_params"])
    else:
        r = exec_tape(prop, values=doc["tape"])
    fp = f"{doc['clause']}|{doc['locus']}"
    hit = [v for v in r.violations if v.fp() == fp]
    if verbose:
        print(f"replay {path}: pop={r.pop} cfg={r.cfg}")
        for line in r.log:
            print(line)
        print(f"digest now={r.digest} recorded={doc.get('digest')}")
    if hit:
        print(f"VIOLATION property={pid} replay={path}")
        print(f"  clause={hit[0].clause} locus={hit[0].locus} detail={hit[0].detail}")
        return 1
    if r.violations:
        print(f"replay produced other violations: {[v.fp() for v in r.violations]}")
        return 1 if not doc.get("expect_clean") else 1
    print("replay: no violation (property holds on this tape now)")
    return 0


def _replay_subprocess(path: str) -> tuple[int, str]:
    envv = dict(os.environ)
    envv["PYTHONHASHSEED"] = "0"
    p = subprocess.run(
        [sys.executable, os.path.join(VERIF, "cfdpsim", "cli.py"), "--replay", path, "--quiet"],
        capture_output=True, text=True, env=envv, cwd=VERIF, timeout=300,
    )
    return p.returncode, p.stdout[-2000:] + p.stderr[-2000:]


# ---------------------------------------------------------------------------------------------
# regress tapes


def run_regress(pid: str, known: dict) -> tuple[list, int, dict]:
    """Replay committed regression tapes first. Returns (violation items, count, known hits)."""
    d = os.path.join(VERIF, "regress", pid)
    items, n, khits = [], 0, {}
    if not os.path.isdir(d):
        return items, n, khits
    prop = load_prop(pid)
    for fn in sorted(os.listdir(d)):
        if not fn.endswith(".json"):
            continue
        with open(os.path.join(d, fn)) as f:
            doc = json.load(f)
        r = exec_tape(prop, values=doc["tape"])
        n += 1
        for v in r.violations:
            kid = match_known(known, pid, v)
            if kid is not None:
                khits[kid] = khits.get(kid, 0) + 1
            else:
                items.append({"fp": v.fp(), "clause": v.clause, "locus": v.locus, "detail": v.detail,
                              "index": f"regress/{fn}", "tape": doc["tape"], "orig_len": len(doc["tape"])})
                break
    return items, n, khits


# ---------------------------------------------------------------------------------------------
# sweeps: fixed, enumerated sets of simulated runs a property defines (prop.SWEEP(tier) -> list of JSON-able
# parameter objects, prop.run_sweep(params) -> RunResult). Executed before the seeded search.


def _sweep_batch(pid: str, items: list, known: dict):
    faulthandler.dump_traceback_later(900, exit=True)
    prop = load_prop(pid)
    out = {"runs": 0, "viol": [], "known": {}, "errors": [], "sigs": set(), "nt": 0, "events": 0, "sim_ms": 0, "probes": {}, "faults": {}, "sample": None}
    for params in items:
        try:
            r = prop.run_sweep(params)
        except Exception:  # noqa: BLE001
            out["errors"].append(f"sweep {params}: " + traceback.format_exc()[-1200:])
            if len(out["errors"]) > 3:
                break
            continue
        out["runs"] += 1
        out["sigs"].add(r.sig)
        out["nt"] += 1 if r.nontrivial else 0
        out["events"] += r.events
        out["sim_ms"] += r.sim_ms
        for k, v in r.probes.items():
            out["probes"][k] = out["probes"].get(k, 0) + v
        for k, v in r.faults.items():
            out["faults"][k] = out["faults"].get(k, 0) + v
        if out["sample"] is None and r.nontrivial:
            out["sample"] = {"sweep_params": params, "trace": r.log[:40]}
        for v in r.violations:
            kid = match_known(known, pid, v)
            if kid is not None:
                out["known"][kid] = out["known"].get(kid, 0) + 1
            elif len(out["viol"]) < 3 and v.fp() not in {x["fp"] for x in out["viol"]}:
                out["viol"].append({"fp": v.fp(), "clause": v.clause, "locus": v.locus, "detail": v.detail, "index": "sweep",
                                    "tape": [], "orig_len": 0, "sweep_params": params})
    faulthandler.cancel_dump_traceback_later()
    cleanup_sandbox_root()
    out["sigs"] = list(out["sigs"])
    return out


def run_sweeps(pid: str, prop, tier: str, known: dict, workers: int):
    fn = getattr(prop, "SWEEP", None)
    if fn is None:
        return None
    items = list(fn(tier))
    res = {"cells": len(items), "runs": 0, "viol": [], "known": {}, "errors": [], "sigs": set(), "nt": 0, "events": 0, "sim_ms": 0,
           "probes": {}, "faults": {}, "samples": []}
    if not items:
        return res
    ctx = mp.get_context("fork")
    chunk = max(1, len(items) // (workers * 4))
    jobs = [items[i : i + chunk] for i in range(0, len(items), chunk)]
    with ProcessPoolExecutor(max_workers=workers, mp_context=ctx) as ex:
        for o in ex.map(_sweep_batch, [pid] * len(jobs), jobs, [known] * len(jobs)):
            res["runs"] += o["runs"]
            res["nt"] += o["nt"]
            res["events"] += o["events"]
            res["sim_ms"] += o["sim_ms"]
            res["sigs"].update(o["sigs"])
            res["errors"].extend(o["errors"])
            for key in ("probes", "faults", "known"):
                for k, v in o[key].items():
                    res[key][k] = res[key].get(k, 0) + v
            for it in o["viol"]:
                if it["fp"] not in {x["fp"] for x in res["viol"]}:
                    res["viol"].append(it)
            if o["sample"] and len(res["samples"]) < 2:
                res["samples"].append(o["sample"])
    return res


# ---------------------------------------------------------------------------------------------
# main search


def check(pid: str, tier: str, seed: int, budget_s: float | None, workers: int | None) -> int:
    t0 = time.time()
    prop = load_prop(pid)
    known = load_known()
    if budget_s is None:
        budget_s = float(os.environ.get("VERIF_BUDGET_S", getattr(prop, "BUDGET", {}).get(tier, 25 if tier == "quick" else 600)))
    if workers is None:
        workers = int(os.environ.get("VERIF_WORKERS", min(16, os.cpu_count() or 1)))
    batch = getattr(prop, "BATCH", 100)
    det_every = getattr(prop, "DET_EVERY", 25)
    print(f"check {pid} tier={tier} VERIF_SEED={seed} budget={budget_s}s workers={workers} src={env.SRC}")
    globals_found = env.scan_process_globals() + [n for n, _, _ in env._SNAP]

    viol_items, n_regress, known_hits = run_regress(pid, known)
    sweep = None
    sweep_error = None
    try:
        sweep = run_sweeps(pid, prop, tier, known, workers)
    except Exception:  # noqa: BLE001
        sweep_error = traceback.format_exc()[-1500:]
    if sweep is not None:
        for it in sweep["viol"]:
            if it["fp"] not in {x["fp"] for x in viol_items}:
                viol_items.append(it)
        for k, v in sweep["known"].items():
            known_hits[k] = known_hits.get(k, 0) + v
        if sweep["errors"]:
            sweep_error = "; ".join(sweep["errors"][:2])
    tot = {
        "runs": 0, "nontrivial": 0, "sigs": set(), "nt_sigs": set(), "nstates": 0, "probes": {}, "faults": {},
        "sim_ms": 0, "events": 0, "calls": 0, "pops": {}, "known": dict(known_hits), "excused": {}, "samples": [],
        "det_checked": 0, "errors": [], "more_viol": 0,
    }
    deadline = max(t0 + budget_s, time.time() + budget_s / 2)  # sweeps never starve the seeded search
    nxt = 0
    ctx = mp.get_context("fork")
    harness_error = None
    try:
        with ProcessPoolExecutor(max_workers=workers, mp_context=ctx) as ex:
            futs = set()
            max_runs = int(os.environ.get("VERIF_MAX_RUNS", "0")) or None

            def submit():
                nonlocal nxt
                futs.add(ex.submit(_batch, pid, seed, nxt, batch, deadline, known, det_every))
                nxt += batch

            for _ in range(workers * 2):
                submit()
            while futs:
                done, futs_left = wait(futs, timeout=budget_s + 900, return_when=FIRST_COMPLETED)
                if not done:
                    harness_error = "worker timeout"
                    break
                futs = set(futs_left)
                for f in done:
                    a = f.result()
                    for k in ("runs", "nontrivial", "sim_ms", "events", "calls", "det_checked"):
                        tot[k] += a[k]
                    tot["sigs"].update(a["sigs"])
                    tot["nt_sigs"].update(a["nt_sigs"])
                    tot["nstates"] = max(tot["nstates"], a["nstates"])
                    for key in ("probes", "faults", "pops", "known", "excused"):
                        for k, v in a[key].items():
                            tot[key][k] = tot[key].get(k, 0) + v
                    tot["more_viol"] += a.get("more_viol", 0)
                    if len(tot["samples"]) < 3:
                        tot["samples"].extend(a["samples"][: 3 - len(tot["samples"])])
                    tot["errors"].extend(a["errors"])
                    for it in a["viol"]:
                        if it["fp"] not in {x["fp"] for x in viol_items}:
                            viol_items.append(it)
                    stop = time.time() > deadline or len(viol_items) >= 5 or len(tot["errors"]) > 3
                    if max_runs and nxt >= max_runs:
                        stop = True
                    if not stop:
                        submit()
    except Exception:  # noqa: BLE001
        harness_error = traceback.format_exc()[-2000:]
    if tot["errors"] and not harness_error:
        harness_error = "; ".join(tot["errors"][:3])
    if sweep_error and not harness_error:
        harness_error = "sweep: " + sweep_error

    # verdict
    rc = 0
    replay_paths = []
    for it in viol_items[:5]:
        try:
            path = write_replay(pid, seed, it)
            code, out = _replay_subprocess(path)
            if code == 1:
                replay_paths.append(path)
                print(f"VIOLATION property={pid} replay={path}")
                print(f"  clause={it['clause']} locus={it['locus']} detail={it['detail']} "
                      f"(tape {it['orig_len']} -> {len(it['tape'])} entries)")
                rc = 1
            else:
                harness_error = harness_error or f"violation {it['fp']} did not reproduce in a fresh interpreter: {out[-600:]}"
        except Exception:  # noqa: BLE001
            harness_error = harness_error or traceback.format_exc()[-1500:]
    for k in known.get("known", []):
        if k["property"] == pid:
            n = tot["known"].get(k["id"], 0)
            print(f"KNOWN-FINDING: property={pid} {k['id']}: {k['what']} (seen in {n} runs of this batch)")
    wall = time.time() - t0
    ev = build_evidence(pid, prop, tier, seed, tot, wall, n_regress, viol_items, globals_found, harness_error)
    if sweep is not None:
        cov = ev["coverage"]
        cov["evaluations"] += sweep["runs"]
        cov["sweep"] = {
            "what": getattr(prop, "SWEEP_RULE", ""), "cells": sweep["cells"], "runs": sweep["runs"], "nontrivial_runs": sweep["nt"],
            "distinct_schedules": len(sweep["sigs"]), "events": sweep["events"], "simulated_seconds": round(sweep["sim_ms"] / 1000, 1),
            "faults_fired": sweep["faults"], "probes": sweep["probes"], "complete": sweep["runs"] == sweep["cells"],
        }
        cov["samples"] = (cov["samples"] + sweep["samples"])[:4]
        print(f"{pid}: sweep cells={sweep['cells']} runs={sweep['runs']} nontrivial={sweep['nt']} distinct={len(sweep['sigs'])}")
    os.makedirs(os.path.join(OUT, "evidence"), exist_ok=True)
    with open(os.path.join(OUT, "evidence", f"{pid}.json"), "w") as f:
        json.dump(ev, f, indent=1, default=str)
    rph = tot["runs"] / wall * 3600 if wall > 0 else 0
    print(f"{pid}: runs={tot['runs']} nontrivial={tot['nontrivial']} distinct_schedules={len(tot['sigs'])} "
          f"distinct_nontrivial={len(tot['nt_sigs'])} sim_s={tot['sim_ms']/1000:.0f} runs/h={rph:.0f} wall={wall:.1f}s "
          f"known={tot['known']} faults={tot['faults']}")
    if harness_error:
        print(f"HARNESS-ERROR {pid}: {harness_error}")
        return 2 if rc == 0 else rc
    if rc == 0:
        print(f"OK {pid}: property held on everything explored")
    return rc


def build_evidence(pid, prop, tier, seed, tot, wall, n_regress, viol_items, globals_found, harness_error) -> dict:
    cov = {
        "evaluations": tot["runs"] + n_regress,
        "distinct_nontrivial": len(tot["nt_sigs"]),
        "rule": getattr(prop, "RULE", ""),
        "samples": tot["samples"][:3] or [{"note": "no non-trivial run in this batch"}],
        "exhaustive": False,
        "runs": tot["runs"],
        "nontrivial_runs": tot["nontrivial"],
        "regress_tapes_replayed": n_regress,
        "runs_per_hour": round(tot["runs"] / wall * 3600) if wall > 0 else 0,
        "simulated_seconds": round(tot["sim_ms"] / 1000, 1),
        "events": tot["events"],
        "handler_calls": tot["calls"],
        "distinct_schedules": len(tot["sigs"]),
        "distinct_abstract_states_max_per_run": tot["nstates"],
        "faults_fired": tot["faults"],
        "probes": tot["probes"],
        "populations": tot["pops"],
        "excused": tot["excused"],
        "known_findings_seen": tot["known"],
        "determinism_spot_checks": tot["det_checked"],
        "process_globals_reset_per_run": globals_found,
        "real_components": getattr(prop, "REAL", COMMON_REAL),
        "stub_components": getattr(prop, "STUBS", COMMON_STUBS),
        "stubs_and_shims": SHIMS,
        "unlisted_violations": [{k: it[k] for k in ("clause", "locus", "detail", "index")} for it in viol_items[:5]],
        "further_unminimised_violating_runs": tot["more_viol"],
        "harness_error": harness_error,
    }
    return {
        "property_id": pid,
        "tier": tier,
        "seed": seed,
        "level": "exploration",
        "coverage": cov,
        "assumptions": getattr(prop, "ASSUMPTIONS", []),
        "wall_s": round(wall, 2),
        "violations": len(viol_items),
    }


COMMON_REAL = [
    "cfdppy.handler.source.SourceHandler", "cfdppy.handler.dest.DestHandler (incl. LostSegmentTracker)",
    "cfdppy.handler.common.get_packet_destination", "cfdppy.mib (fault handler table, remote cfg table)",
    "cfdppy.request.PutRequest", "cfdppy.filestore.NativeFilestore on a tmpfs sandbox (when vfs=native)",
    "spacepackets PDU codec (every PDU crosses the link as packed bytes)", "spacepackets.countdown.Countdown",
    "spacepackets.seqcount.SeqCountProvider",
]
COMMON_STUBS = [
    "link (cfdpsim.world.Link)", "clock source (spacepackets.countdown.time_ms rebound to SimClock)",
    "entity shell / user loop (cfdpsim.world.World.deliver/poll)", "RecUser, RecFaultHandler, SimCheckTimers",
    "MemFilestore / FaultyFilestore (when selected)",
]
SHIMS = [
    "EofPdu.unpack leaves condition code as 0xF0-style nibble: link shifts it (spacepackets 0.26.1)",
    "FileDataPdu.unpack rejects zero-length file data: counted as receive-side parse reject",
]


def digests(pid: str, seed: int, start: int, count: int, order: str = "fwd") -> dict:
    """Run digests of `count` run indices (for the determinism self-test)."""
    prop = load_prop(pid)
    idxs = list(range(start, start + count))
    if order == "rev":
        idxs.reverse()
    out = {}
    for idx in idxs:
        r = exec_tape(prop, seed=run_seed(seed, pid, idx))
        out[str(idx)] = r.digest + ":" + str(len(r.tape)) + ":" + str(len(r.violations))
    cleanup_sandbox_root()
    return out


def _digests_job(args):
    return digests(*args)


def selftest_determinism(pids, seed: int, count: int) -> int:
    """DESIGN 9: same seed twice in-process, in reverse order (different predecessor runs), in fresh
    interpreters under PYTHONHASHSEED 0 / 1 / random, sequentially and spread over 16 workers."""
    t0 = time.time()
    bad = []
    total = 0
    per = {}
    for pid in pids:
        ref = digests(pid, seed, 0, count)
        variants = {}
        variants["again_in_process"] = digests(pid, seed, 0, count)
        variants["reverse_order"] = digests(pid, seed, 0, count, "rev")
        for hs in ("0", "1", "random"):
            envv = dict(os.environ, PYTHONHASHSEED=hs, VERIF_KEEP_HASHSEED="1")
            p = subprocess.run([sys.executable, os.path.join(VERIF, "cfdpsim", "cli.py"), pid, "--digests", str(count), "--seed", str(seed)],
                               capture_output=True, text=True, env=envv, cwd=VERIF, timeout=1800)
            try:
                variants[f"fresh_interpreter_hashseed_{hs}"] = json.loads(p.stdout.strip().splitlines()[-1])
            except Exception:  # noqa: BLE001
                variants[f"fresh_interpreter_hashseed_{hs}"] = {"error": (p.stdout + p.stderr)[-400:]}
        ctx = mp.get_context("fork")
        chunk = max(count // 16, 1)
        jobs = [(pid, seed, s0, min(chunk, count - s0)) for s0 in range(0, count, chunk)]
        merged = {}
        with ProcessPoolExecutor(max_workers=16, mp_context=ctx) as ex:
            for d in ex.map(_digests_job, jobs):
                merged.update(d)
        variants["16_workers"] = merged
        nbad = 0
        for name, d in variants.items():
            if d != ref:
                diff = [k for k in ref if d.get(k) != ref[k]][:5]
                bad.append(f"{pid}/{name}: {len([k for k in ref if d.get(k) != ref[k]])} of {count} digests differ, e.g. indices {diff} {d.get('error', '')}")
                nbad += 1
        per[pid] = {"runs": count, "variants": len(variants), "diverging_variants": nbad}
        total += count * (len(variants) + 1)
        print(f"determinism {pid}: {count} run indices x {len(variants) + 1} executions, diverging variants: {nbad}", flush=True)
    doc = {"seed": seed, "runs_per_property": count, "executions": total, "properties": per, "divergences": bad, "wall_s": round(time.time() - t0, 1)}
    os.makedirs(os.path.join(OUT, "evidence"), exist_ok=True)
    with open(os.path.join(OUT, "evidence", "selftest_determinism.json"), "w") as f:
        json.dump(doc, f, indent=1)
    if bad:
        for b in bad:
            print("HARNESS-ERROR nondeterminism:", b)
        return 2
    print(f"OK determinism: {total} executions, no divergence")
    return 0


def main(argv=None) -> int:
    import argparse

    ap = argparse.ArgumentParser()
    ap.add_argument("prop", nargs="?")
    ap.add_argument("--tier", default=os.environ.get("VERIF_TIER", "quick"))
    ap.add_argument("--seed", type=int, default=int(os.environ.get("VERIF_SEED", "0") or 0))
    ap.add_argument("--budget", type=float, default=None)
    ap.add_argument("--workers", type=int, default=None)
    ap.add_argument("--replay", default=None)
    ap.add_argument("--quiet", action="store_true")
    ap.add_argument("--one", type=int, default=None, help="run a single index and print its trace")
    ap.add_argument("--digests", type=int, default=None, help="print the digests of the first N run indices as JSON")
    ap.add_argument("--count", type=int, default=60)
    a = ap.parse_args(argv)
    if a.replay:
        return replay_file(a.replay, verbose=not a.quiet)
    if a.prop == "selftest-determinism":
        pids = sorted(f[:-3] for f in os.listdir(os.path.join(VERIF, "props")) if f.startswith("C") and f.endswith(".py") and f[1:3].isdigit())
        return selftest_determinism(pids, a.seed, a.count)
    if a.digests is not None:
        print(json.dumps(digests(a.prop, a.seed, 0, a.digests)))
        return 0
    if a.one is not None:
        prop = load_prop(a.prop)
        r = exec_tape(prop, seed=run_seed(a.seed, a.prop, a.one), keep_labels=True)
        print(r.pop, r.cfg)
        print("\n".join(r.log))
        print("violations:", [(v.clause, v.locus, v.detail) for v in r.violations])
        print("nontrivial", r.nontrivial, "probes", r.probes, "faults", r.faults, "excused", r.excused.get("n"))
        return 0
    if a.tier not in ("quick", "thorough"):
        a.tier = "quick"
    return check(a.prop, a.tier, a.seed, a.budget, a.workers)
