"""Filestores used in simulation: in-memory store, fault-injecting wrapper, sandbox helpers."""
from __future__ import annotations

import os
import shutil
import tempfile
from pathlib import Path

from . import env  # noqa: F401
from .models import ref_checksum

from cfdppy.filestore import NativeFilestore, VirtualFilestore
from spacepackets.cfdp.tlv import FilestoreResponseStatusCode as FS


def _k(p) -> str:
    return os.path.normpath(str(p))


class MemFilestore(VirtualFilestore):
    """Purely in-memory VirtualFilestore. Paths are plain strings that need not exist on the host.
    Every call is recorded."""

    def __init__(self):
        self.files: dict[str, bytearray] = {}
        self.dirs: set[str] = {"."}
        self.calls: list[tuple] = []
        self.depth = 0  # >0 while inside a filestore method (for the C16 audit)

    def _rec(self, *a) -> None:
        self.calls.append(a)

    def __len__(self) -> int:
        # container-like user objects may be falsy (here: "number of filestore operations in progress"); the library has to
        # test the user's filestore argument for None, not for truth
        return self.depth

    # --- helpers for the harness (not part of the interface)
    def h_put(self, path: str, data: bytes) -> None:
        self.files[_k(path)] = bytearray(data)

    def h_mkdir(self, path: str) -> None:
        self.dirs.add(_k(path))

    def h_get(self, path: str):
        b = self.files.get(_k(path))
        return None if b is None else bytes(b)

    def h_tree(self) -> dict:
        t = {("d", d): None for d in self.dirs if d != "."}
        t.update({("f", f): bytes(b) for f, b in self.files.items()})
        return t

    # --- interface
    def read_data(self, file, offset, read_len):
        self._rec("read_data", _k(file), offset, read_len)
        k = _k(file)
        if k not in self.files:
            raise FileNotFoundError(file)
        off = 0 if offset is None else offset
        b = self.files[k]
        if read_len is None:
            return bytes(b[off:])
        return bytes(b[off : off + read_len])

    def read_from_opened_file(self, bytes_io, offset, read_len):
        self._rec("read_from_opened_file", offset, read_len)
        bytes_io.seek(offset)
        return bytes_io.read(read_len)

    def is_directory(self, path):
        self._rec("is_directory", _k(path))
        return _k(path) in self.dirs

    def filename_from_full_path(self, path):
        return Path(path).name

    def file_exists(self, path):
        self._rec("file_exists", _k(path))
        k = _k(path)
        return k in self.files or k in self.dirs

    def truncate_file(self, file):
        self._rec("truncate_file", _k(file))
        k = _k(file)
        if k not in self.files:
            raise FileNotFoundError(file)
        self.files[k] = bytearray()

    def file_size(self, file):
        self._rec("file_size", _k(file))
        k = _k(file)
        if k not in self.files:
            raise FileNotFoundError(file)
        return len(self.files[k])

    def write_data(self, file, data, offset):
        self._rec("write_data", _k(file), offset, len(data))
        k = _k(file)
        if k not in self.files:
            raise FileNotFoundError(file)
        b = self.files[k]
        off = 0 if offset is None else offset
        if not data:
            return
        if off > len(b):
            b.extend(b"\0" * (off - len(b)))
        b[off : off + len(data)] = data

    def create_file(self, file):
        self._rec("create_file", _k(file))
        k = _k(file)
        if k in self.files or k in self.dirs:
            return FS.CREATE_NOT_ALLOWED
        parent = _k(os.path.dirname(k) or ".")
        if parent not in self.dirs:
            return FS.CREATE_NOT_ALLOWED
        self.files[k] = bytearray()
        return FS.CREATE_SUCCESS

    def delete_file(self, file):
        self._rec("delete_file", _k(file))
        k = _k(file)
        if k in self.dirs:
            return FS.DELETE_NOT_ALLOWED
        if k not in self.files:
            return FS.DELETE_FILE_DOES_NOT_EXIST
        del self.files[k]
        return FS.DELETE_SUCCESS

    def rename_file(self, old, new):
        self._rec("rename_file", _k(old), _k(new))
        o, n = _k(old), _k(new)
        if o in self.dirs or n in self.dirs:
            return FS.RENAME_NOT_PERFORMED
        if o not in self.files:
            return FS.RENAME_OLD_FILE_DOES_NOT_EXIST
        if n in self.files:
            return FS.RENAME_NEW_FILE_DOES_EXIST
        self.files[n] = self.files.pop(o)
        return FS.RENAME_SUCCESS

    def replace_file(self, replaced, source):
        self._rec("replace_file", _k(replaced), _k(source))
        r, s = _k(replaced), _k(source)
        if r in self.dirs or s in self.dirs:
            return FS.REPLACE_NOT_ALLOWED
        if r not in self.files:
            return FS.REPLACE_FILE_NAME_ONE_TO_BE_REPLACED_DOES_NOT_EXIST
        if s not in self.files:
            return FS.REPLACE_FILE_NAME_TWO_REPLACE_SOURCE_NOT_EXIST
        self.files[r] = self.files.pop(s)
        return FS.REPLACE_SUCCESS

    def create_directory(self, d):
        self._rec("create_directory", _k(d))
        k = _k(d)
        if k in self.dirs or k in self.files:
            return FS.CREATE_DIR_CAN_NOT_BE_CREATED
        self.dirs.add(k)
        return FS.CREATE_DIR_SUCCESS

    def remove_directory(self, d, recursive=False):
        self._rec("remove_directory", _k(d), recursive)
        k = _k(d)
        if k not in self.dirs:
            if k in self.files:
                return FS.REMOVE_DIR_NOT_ALLOWED
            return FS.REMOVE_DIR_DOES_NOT_EXIST
        inside = [f for f in list(self.files) + list(self.dirs) if f.startswith(k + os.sep)]
        if inside and not recursive:
            return FS.REMOVE_DIR_NOT_ALLOWED
        for f in inside:
            self.files.pop(f, None)
            self.dirs.discard(f)
        self.dirs.discard(k)
        return FS.REMOVE_DIR_SUCCESS

    def list_directory(self, d, target, recursive=False):
        self._rec("list_directory", _k(d))
        return FS.NOT_PERFORMED

    def calculate_checksum(self, checksum_type, file_path, size_to_verify, segment_len=4096):
        self._rec("calculate_checksum", int(checksum_type), _k(file_path), size_to_verify)
        k = _k(file_path)
        if int(checksum_type) == 15:
            return b"\0\0\0\0"
        if int(checksum_type) not in (0, 2, 3):
            from cfdppy.exceptions import ChecksumNotImplemented

            raise ChecksumNotImplemented(checksum_type)  # what the interface documents for unsupported types
        if k not in self.files:
            raise FileNotFoundError(file_path)
        return ref_checksum(int(checksum_type), bytes(self.files[k][:size_to_verify]))


class FaultyFilestore(VirtualFilestore):
    """Wraps a filestore; `decide(op, path)` returns None or an exception instance to raise
    *before* the operation has any effect ("rejected filestore write")."""

    def __init__(self, inner: VirtualFilestore, decide, decide_x=None):
        self.inner = inner
        self.decide = decide
        self.decide_x = decide_x  # second seam: read_data / calculate_checksum / file_size ("the file vanished", EIO)
        self.rejected: list[tuple] = []
        self.rejected_x: list[tuple] = []

    def _gate_x(self, op, path, *extra):
        if self.decide_x is None:
            return
        e = self.decide_x(op, path, *extra)
        if e is not None:
            self.rejected_x.append((op, _k(path)) + tuple(extra))
            raise e

    def __len__(self) -> int:
        return 0  # falsy user object, see MemFilestore.__len__

    def _gate(self, op, path, *extra):
        e = self.decide(op, path, *extra)
        if e is not None:
            self.rejected.append((op, _k(path)) + tuple(extra))
            raise e

    def read_data(self, file, offset, read_len):
        self._gate_x("read_data", file, offset, read_len)
        return self.inner.read_data(file, offset, read_len)

    def read_from_opened_file(self, bytes_io, offset, read_len):
        return self.inner.read_from_opened_file(bytes_io, offset, read_len)

    def is_directory(self, path):
        return self.inner.is_directory(path)

    def filename_from_full_path(self, path):
        return self.inner.filename_from_full_path(path)

    def file_exists(self, path):
        return self.inner.file_exists(path)

    def truncate_file(self, file):
        self._gate("truncate_file", file)
        return self.inner.truncate_file(file)

    def file_size(self, file):
        self._gate_x("file_size", file)
        return self.inner.file_size(file)

    def write_data(self, file, data, offset):
        self._gate("write_data", file, offset, len(data))
        return self.inner.write_data(file, data, offset)

    def create_file(self, file):
        self._gate("create_file", file)
        return self.inner.create_file(file)

    def delete_file(self, file):
        return self.inner.delete_file(file)

    def rename_file(self, a, b):
        return self.inner.rename_file(a, b)

    def replace_file(self, a, b):
        return self.inner.replace_file(a, b)

    def create_directory(self, d):
        return self.inner.create_directory(d)

    def remove_directory(self, d, recursive=False):
        return self.inner.remove_directory(d, recursive)

    def list_directory(self, d, t, recursive=False):
        return self.inner.list_directory(d, t, recursive)

    def calculate_checksum(self, checksum_type, file_path, size_to_verify, segment_len=4096):
        self._gate_x("calculate_checksum", file_path, size_to_verify)
        return self.inner.calculate_checksum(checksum_type, file_path, size_to_verify, segment_len)


# ---------------------------------------------------------------------------------------------
# sandbox on tmpfs

_SB_ROOT = None
_SB_N = 0
_HOME = os.getcwd()


def sandbox_root() -> str:
    global _SB_ROOT
    if _SB_ROOT is None or not os.path.isdir(_SB_ROOT) or _SB_ROOT.split("-")[-2] != str(os.getpid()):
        base = "/dev/shm" if os.path.isdir("/dev/shm") and os.access("/dev/shm", os.W_OK) else None
        _SB_ROOT = tempfile.mkdtemp(prefix=f"cfdpsim-{os.getpid()}-", dir=base)
    return _SB_ROOT


def enter_sandbox() -> str:
    """Create a fresh per-run directory and chdir into it. All paths given to the library are
    relative, so no pid or temp name ever reaches a trace."""
    global _SB_N
    _SB_N += 1
    d = os.path.join(sandbox_root(), f"r{_SB_N}")
    os.mkdir(d)
    os.chdir(d)
    return d


def leave_sandbox(d: str) -> None:
    os.chdir(_HOME)
    shutil.rmtree(d, ignore_errors=True)


def cleanup_sandbox_root() -> None:
    global _SB_ROOT
    os.chdir(_HOME)
    if _SB_ROOT and os.path.isdir(_SB_ROOT):
        shutil.rmtree(_SB_ROOT, ignore_errors=True)
    _SB_ROOT = None


def host_tree(root: str = ".") -> dict:
    """Snapshot of a directory tree: {("d"|"f", relpath): bytes|None}, deterministic order."""
    out = {}
    for dp, dns, fns in os.walk(root):
        dns.sort()
        for d in dns:
            out[("d", os.path.normpath(os.path.join(dp, d)))] = None
        for f in sorted(fns):
            p = os.path.normpath(os.path.join(dp, f))
            with open(p, "rb") as fh:
                out[("f", p)] = fh.read()
    return out


class NativeStoreH(NativeFilestore):
    """The real NativeFilestore plus harness helpers with the same names as MemFilestore's."""

    def h_put(self, path: str, data: bytes) -> None:
        with open(path, "wb") as f:
            f.write(data)

    def h_mkdir(self, path: str) -> None:
        os.makedirs(path, exist_ok=True)

    def h_get(self, path: str):
        try:
            with open(path, "rb") as f:
                return f.read()
        except (FileNotFoundError, IsADirectoryError):
            return None

    def h_tree(self) -> dict:
        return host_tree(".")
