"""Synthetic peer: generates well-formed PDUs of every type from the tape (DESIGN 2.6).

Admission-aware: by default the header copies the live transaction (ids, sequence number, mode,
CRC flag, direction proper to the PDU type) so most PDUs get past the admission checks; with low
probability each header field is perturbed so every admission branch is exercised too.
"""
from __future__ import annotations

from . import env  # noqa: F401
from .models import ref_checksum

from spacepackets.cfdp import (
    ChecksumType,
    ConditionCode,
    CrcFlag,
    Direction,
    LargeFileFlag,
    PduConfig,
    TransmissionMode,
)
from spacepackets.cfdp.pdu import (
    AckPdu,
    DirectiveType,
    EofPdu,
    FileDataPdu,
    FinishedPdu,
    KeepAlivePdu,
    MetadataParams,
    MetadataPdu,
    NakPdu,
    PromptPdu,
    TransactionStatus,
)
from spacepackets.cfdp.pdu.file_data import FileDataParams
from spacepackets.cfdp.pdu.finished import DeliveryCode, FileStatus, FinishedParams
from spacepackets.cfdp.pdu.prompt import ResponseRequired
from spacepackets.cfdp.tlv import EntityIdTlv
from spacepackets.util import UnsignedByteField

KINDS = ("MD", "FD", "EOF", "ACK_EOF", "ACK_FIN", "NAK", "FIN", "KA", "PROMPT")
TO_RECEIVER = ("MD", "FD", "EOF", "ACK_FIN", "PROMPT")

CONDS = [
    ConditionCode.NO_ERROR, ConditionCode.CANCEL_REQUEST_RECEIVED, ConditionCode.POSITIVE_ACK_LIMIT_REACHED,
    ConditionCode.FILE_CHECKSUM_FAILURE, ConditionCode.CHECK_LIMIT_REACHED, ConditionCode.FILESTORE_REJECTION,
    ConditionCode.NAK_LIMIT_REACHED, ConditionCode.FILE_SIZE_ERROR,
]


class Synth:
    def __init__(self, w, perturb: int = 12):
        """perturb: 1/perturb probability per header field of deviating from the live values."""
        self.w = w
        self.perturb = perturb
        self.data = w.src_bytes
        self.size = len(w.src_bytes)
        self.src_path = w.src_path
        self.dst_req = w.dst_req

    # -- header
    def conf(self, t, kind: str, seq: int | None, pert: bool = True):
        w = self.w
        c = w.cfg
        p = self.perturb if pert else 0
        notes = []

        def dev(label):
            return p and t.chance(1, p, "perturb " + label)

        src_val, dst_val = 1, 2
        idw = getattr(self, "idw", None) or c.idw  # a scripted peer may use narrower ids than the configured entities
        if dev("src id"):
            # 9: an entity nobody knows; 3: a second remote entity the receiving entity knows (synthpop adds its entry): a PDU
            # of ITS transaction with the same sequence number is still a PDU of another transaction
            src_val = [9, 3][t.choose(2, "other source id")]
            notes.append("srcid")
        if dev("dst id"):
            dst_val = 7
            notes.append("dstid")
        if dev("id width"):
            # only widths for which the configured maximum packet length still holds the fixed
            # part of every PDU kind (a precondition of the properties)
            fixed = 1 + 16 + (2 if c.crc else 0) + 2
            ok = [x for x in (1, 2, 4, 8) if 4 + 2 * x + c.seqw + fixed <= c.mpl]
            idw = ok[t.choose(len(ok), "idw")] if ok else idw
            notes.append("idw")
        seqw = c.seqw
        seqv = 0 if seq is None else seq
        if dev("seq"):
            seqv = (seqv + 1 + t.choose(3, "seq delta")) % (1 << (8 * seqw))
            notes.append("seq")
        mode = c.mode
        if dev("mode"):
            mode = TransmissionMode.UNACKNOWLEDGED if mode == TransmissionMode.ACKNOWLEDGED else TransmissionMode.ACKNOWLEDGED
            notes.append("mode")
        crc = CrcFlag.WITH_CRC if c.crc else CrcFlag.NO_CRC
        if dev("crc"):
            crc = CrcFlag.NO_CRC if c.crc else CrcFlag.WITH_CRC
            notes.append("crc")
        direction = Direction.TOWARDS_RECEIVER if kind in TO_RECEIVER else Direction.TOWARDS_SENDER
        # the large-file PDU format is legal for files of any size (8-byte offsets and sizes)
        file_flag = LargeFileFlag.LARGE if getattr(self, "large", False) else LargeFileFlag.NORMAL
        if dev("large file flag"):
            file_flag = LargeFileFlag.LARGE if file_flag == LargeFileFlag.NORMAL else LargeFileFlag.NORMAL
            notes.append("largeflag")
        flip_dir = False
        if dev("direction"):
            flip_dir = True
            notes.append("dir")
        conf = PduConfig(
            source_entity_id=UnsignedByteField(src_val, idw),
            dest_entity_id=UnsignedByteField(dst_val, idw),
            transaction_seq_num=UnsignedByteField(seqv, seqw),
            trans_mode=mode,
            file_flag=file_flag,
            crc_flag=crc,
            direction=direction,
        )
        return conf, flip_dir, notes

    def _offsets(self):
        s = max(self.w.cfg.eff_seg, 1)
        n = self.size
        return sorted({0, 1, s - 1 if s > 1 else 0, s, s + 1, 2 * s, max(n - s, 0), max(n - 1, 0), n, n + 1, n + s, 3 * s})

    def _lens(self):
        s = max(self.w.cfg.eff_seg, 1)
        return [s, 1, max(s - 1, 1), s + 1, 2 * s, 3]

    # -- PDUs
    def gen(self, t, kind: str, seq: int | None, pert: bool = True, grid_only: bool = False):
        """Returns (pdu, notes). The PDU is an object; callers pack it to bytes for the link."""
        conf, flip_dir, notes = self.conf(t, kind, seq, pert)
        w = self.w
        c = w.cfg
        if kind == "MD":
            var = t.weighted([8, 1, 1, 1, 1], "md variant")
            size = self.size
            src, dst = self.src_path, self.dst_req
            ck = c.ck
            closure = c.closure
            if var == 1:
                size = [0, 1, self.size + 3, max(self.size - 1, 0)][t.choose(4, "md size")]
                notes.append("size")
            elif var == 2:
                # incl. a name the host file system cannot store (NUL byte); a name field that is not UTF-8 is outside
                # what the spacepackets Metadata model (str names) calls well-formed and is not generated (DESIGN 12.2)
                # (the last three: legal names that are not in normal form)
                dst = ["dst/other.bin", "dst", "dst/sub/x.bin", "nodir/x.bin", "dst/nul\x00b.bin", ("x/sub", "dst"),
                       "dst/sub/../up.bin", "dst//dbl.bin", ("src/./a.bin", "dst/./dot.bin")][t.choose(9, "md dst")]
                if isinstance(dst, tuple):
                    # destination given as a directory in which the source's base name is itself an existing directory
                    src, dst = dst
                notes.append("dstname")
            elif var == 3:
                src, dst = None, None
                size = 0
                notes.append("mdonly")
            elif var == 4:
                closure = not closure
                # incl. a well-formed checksum type the native filestore does not implement
                ck = [ChecksumType.CRC_32, ChecksumType.CRC_32C, ChecksumType.NULL_CHECKSUM, ChecksumType.MODULAR,
                      ChecksumType.CRC_32_PROXIMITY_1][t.choose(5, "md ck")]
                notes.append("ck/closure")
            raw_dst = dst if isinstance(dst, bytes) else None
            pdu = MetadataPdu(conf, MetadataParams(closure, ck, size, src, "x" if raw_dst else dst))
            if raw_dst:
                from spacepackets.cfdp.lv import CfdpLv

                pdu._dest_file_name_lv = CfdpLv(value=raw_dst)
                pdu._calculate_directive_field_len()
                notes.append("rawname")
        elif kind == "FD":
            if grid_only or not t.chance(1, 3, "fd offgrid"):
                s = max(c.eff_seg, 1)
                ntiles = max((self.size + s - 1) // s, 1)
                i = t.choose(ntiles, "fd tile")
                off = i * s
                ln = min(s, self.size - off) if self.size > off else 1
                body = self.data[off : off + ln] if off + ln <= self.size else bytes([0xA5]) * ln
            else:
                offs = self._offsets()
                off = offs[t.choose(len(offs), "fd off")]
                lens = self._lens()
                ln = lens[t.choose(len(lens), "fd len")]
                if off + ln <= self.size and not t.chance(1, 4, "fd junk"):
                    body = self.data[off : off + ln]
                else:
                    body = bytes(((off + i) * 7 + 3) & 0xFF for i in range(ln))
                notes.append("offgrid")
            pdu = FileDataPdu(conf, FileDataParams(file_data=body, offset=off, segment_metadata=None))
        elif kind == "EOF":
            var = t.weighted([8, 2, 1, 1, 1], "eof variant")
            cond = ConditionCode.NO_ERROR
            size = self.size
            ck = ref_checksum(int(c.ck), self.data)
            floc = None
            if var == 1:
                cond = CONDS[1 + t.choose(len(CONDS) - 1, "eof cond")]
                size = [self.size, 0, max(self.size // 2, 0)][t.choose(3, "eof csize")]
                ck = ref_checksum(int(c.ck), self.data[:size])
                floc = EntityIdTlv(conf.source_entity_id.as_bytes)
                notes.append("cancel")
            elif var == 2:
                size = [0, 1, self.size + 2, max(self.size - 1, 0)][t.choose(4, "eof size")]
                notes.append("size")
            elif var == 3:
                ck = bytes([ck[0] ^ 0x40]) + ck[1:]
                notes.append("badck")
            elif var == 4:
                size = max(self.size - max(c.eff_seg, 1), 0)
                ck = ref_checksum(int(c.ck), self.data[:size])
                notes.append("short")
            pdu = EofPdu(conf, ck, size, floc, cond)
        elif kind in ("ACK_EOF", "ACK_FIN"):
            d = DirectiveType.EOF_PDU if kind == "ACK_EOF" else DirectiveType.FINISHED_PDU
            cond = CONDS[t.weighted([6] + [1] * (len(CONDS) - 1), "ack cond")]
            st = [TransactionStatus.ACTIVE, TransactionStatus.TERMINATED, TransactionStatus.UNDEFINED, TransactionStatus.UNRECOGNIZED][
                t.weighted([5, 2, 1, 1], "ack status")
            ]
            pdu = AckPdu(conf, d, cond, st)
        elif kind == "NAK":
            n = t.weighted([1, 5, 3, 2, 1], "nak nreq")
            reqs = []
            s = max(c.eff_seg, 1)
            pts = sorted({0, 1, s, s + 1, 2 * s, max(self.size - 1, 0), self.size, self.size + 1, self.size + s, 5 * s})
            for _ in range(n):
                form = t.weighted([6, 2, 1, 1, 1], "nak form")
                if form == 0:
                    a = pts[t.choose(len(pts), "nak a")]
                    b = a + [s, 1, 2 * s, s - 1 if s > 1 else 1][t.choose(4, "nak len")]
                elif form == 1:
                    a, b = 0, 0
                elif form == 2:
                    a = pts[t.choose(len(pts), "nak a")]
                    b = a
                elif form == 3:
                    b = pts[t.choose(len(pts), "nak b")]
                    a = b + 1 + t.choose(s + 1, "nak inv")
                else:
                    a = pts[t.choose(len(pts), "nak a")]
                    b = pts[t.choose(len(pts), "nak b")]
                reqs.append((a, b))
            hi = max([b for _, b in reqs] + [0])
            scope_end = [max(hi, self.size), hi, self.size, 0][t.weighted([5, 2, 2, 1], "nak scope")]
            pdu = NakPdu(conf, 0, scope_end, reqs)
        elif kind == "FIN":
            var = t.weighted([6, 2, 1, 1], "fin variant")
            prm = FinishedParams(ConditionCode.NO_ERROR, DeliveryCode.DATA_COMPLETE, FileStatus.FILE_RETAINED)
            if var == 1:
                cond = CONDS[1 + t.choose(len(CONDS) - 1, "fin cond")]
                prm = FinishedParams(cond, DeliveryCode.DATA_INCOMPLETE, FileStatus.FILE_RETAINED,
                                     fault_location=EntityIdTlv(conf.dest_entity_id.as_bytes))
            elif var == 2:
                prm = FinishedParams(ConditionCode.NO_ERROR, DeliveryCode.DATA_INCOMPLETE, FileStatus.DISCARDED_DELIBERATELY)
            elif var == 3:
                prm = FinishedParams(ConditionCode.NO_ERROR, DeliveryCode.DATA_COMPLETE, FileStatus.FILE_STATUS_UNREPORTED)
            pdu = FinishedPdu(conf, prm)
        elif kind == "KA":
            pdu = KeepAlivePdu(conf, [0, self.size, 1][t.choose(3, "ka progress")])
        elif kind == "PROMPT":
            pdu = PromptPdu(conf, [ResponseRequired.NAK, ResponseRequired.KEEP_ALIVE][t.choose(2, "prompt")])
        else:
            raise ValueError(kind)
        if flip_dir:
            h = pdu.pdu_header
            h.direction = Direction.TOWARDS_SENDER if h.direction == Direction.TOWARDS_RECEIVER else Direction.TOWARDS_RECEIVER
        return pdu, notes
