"""Host file-system access audit (C16): recording proxies for the entry points through which Python
code reaches the host file system. They are installed once per process and record only while an
audit window is open (the simulator opens one around every handler API call)."""
from __future__ import annotations

import builtins
import io
import os
import sys

from . import env

_NAMES_OS = (
    "open", "stat", "lstat", "remove", "unlink", "rename", "replace", "mkdir", "makedirs", "rmdir", "listdir", "scandir",
    "truncate", "access", "utime", "chmod", "link", "symlink", "readlink", "walk", "chdir", "system",
)


class SyscallAudit:
    installed = False
    current = None  # the audit object whose window is open

    def __init__(self):
        self.depth = 0
        self.records = []  # (function, first argument, innermost cfdppy function, innermost cfdppy file)
        self.calls = 0
        self.fault_fn = None
        SyscallAudit.install()

    def enter(self, rec=None) -> None:
        self.depth += 1
        SyscallAudit.current = self

    def exit(self, rec=None) -> None:
        self.depth -= 1
        if self.depth <= 0:
            self.depth = 0
            SyscallAudit.current = None

    def close(self) -> None:
        self.depth = 0
        if SyscallAudit.current is self:
            SyscallAudit.current = None

    def _note(self, fname: str, args) -> None:
        self.calls += 1
        fr = sys._getframe(2)
        func, file = None, None
        n = 0
        # innermost cfdppy frame (reported), and whether a filestore method is on the stack between the
        # access and the handler code (then the access is the filestore doing its job)
        while fr is not None and n < 80:
            fn = fr.f_code.co_filename
            if fn.startswith(env.SRC):
                base = os.path.basename(fn)
                if func is None:
                    func, file = fr.f_code.co_name, base
                if base == "filestore.py":
                    file = "filestore.py"
                    break
                if os.sep + "handler" + os.sep in fn:
                    break
            fr = fr.f_back
            n += 1
        a0 = args[0] if args else None
        try:
            a0 = os.fspath(a0) if a0 is not None and not isinstance(a0, int) else a0
        except TypeError:
            a0 = repr(a0)[:40]
        self.records.append((fname, a0, func, file))
        if self.fault_fn is not None:
            self.fault_fn(fname)  # may raise an OSError: the access fails before it happens

    @classmethod
    def install(cls) -> None:
        if cls.installed:
            return
        cls.installed = True

        def wrap(owner, name, label):
            orig = getattr(owner, name, None)
            if orig is None:
                return

            def proxy(*a, **k):
                cur = cls.current
                if cur is not None:
                    cur._note(label, a)
                return orig(*a, **k)

            proxy.__name__ = getattr(orig, "__name__", name)
            proxy.__wrapped__ = orig
            setattr(owner, name, proxy)

        real_open = builtins.open
        wrap(builtins, "open", "open")
        # io.open is the same object as builtins.open; pathlib calls io.open
        def io_open(*a, **k):
            cur = cls.current
            if cur is not None:
                cur._note("io.open", a)
            return real_open(*a, **k)

        io.open = io_open
        for n in _NAMES_OS:
            wrap(os, n, "os." + n)
